//! `rv c13-child <spec.json> <out.json>` — executes a list of workspace operations in a process of
//! its own (the working directory is process-global) and *observes* each one: manifest of everything
//! outside the root before/after, manifest of the root incl. `.rip`, canaries of outside sentinels in
//! the op's output / frames / files under the root, frame kinds, checkpoint ids and file lists, and
//! the tree (path -> sha256) after every step. Verdicts are made by the parent (c13.rs / c14.rs).
//!
//! Drivers: "direct" = `rip_workspace::Workspace`, "runner" = `rip_tools::ToolRunner` over the builtin
//! registry with a checkpoint hook that is a line-for-line mirror of ripd's (private)
//! `WorkspaceCheckpointHook`, "router" = the real axum router + `SessionEngine` (real hook) driven by
//! tool / checkpoint envelopes on one session and `POST /tasks`.

use crate::fixture::{runtime, sha256_hex, tree_bytes, tree_manifest, App};
use rip_tools::{
    register_builtin_tools, BuiltinToolConfig, CheckpointHook, CheckpointRecord, CheckpointRequest,
    CheckpointRewindRecord, ToolInvocation, ToolRegistry, ToolRunner,
};
use rip_workspace::Workspace;
use serde_json::{json, Map, Value};
use std::collections::{BTreeMap, HashMap, HashSet};
use std::path::{Path, PathBuf};
use std::sync::Arc;
use std::time::{Duration, Instant};

/// Mirror of `ripd::checkpoints::WorkspaceCheckpointHook` (that type is crate-private).
pub struct MirrorHook {
    workspace: Workspace,
}

impl MirrorHook {
    pub fn new(root: PathBuf) -> std::io::Result<Self> {
        Ok(Self { workspace: Workspace::new(root)? })
    }
}

impl CheckpointHook for MirrorHook {
    fn create(&self, request: CheckpointRequest) -> Result<CheckpointRecord, String> {
        let checkpoint = self
            .workspace
            .create_checkpoint(&request.session_id, request.label, &request.files)
            .map_err(|err| format!("checkpoint create failed: {err}"))?;
        let files = checkpoint.files.iter().map(|entry| entry.path.clone()).collect();
        Ok(CheckpointRecord { id: checkpoint.id, label: checkpoint.label, created_at_ms: checkpoint.created_at_ms, files })
    }

    fn rewind(&self, session_id: &str, checkpoint_id: &str) -> Result<CheckpointRewindRecord, String> {
        let checkpoints =
            self.workspace.list_checkpoints(session_id).map_err(|err| format!("checkpoint list failed: {err}"))?;
        let checkpoint = checkpoints
            .into_iter()
            .find(|entry| entry.id == checkpoint_id)
            .ok_or_else(|| "checkpoint not found".to_string())?;
        self.workspace
            .rewind_to_checkpoint(session_id, checkpoint_id)
            .map_err(|err| format!("checkpoint rewind failed: {err}"))?;
        let files = checkpoint.files.iter().map(|entry| entry.path.clone()).collect();
        Ok(CheckpointRewindRecord { id: checkpoint.id, label: checkpoint.label, files })
    }
}

type Manifest = BTreeMap<String, (char, String, u64)>;

fn diff_manifest(a: &Manifest, b: &Manifest) -> Vec<String> {
    let mut out = Vec::new();
    for (p, va) in a {
        match b.get(p) {
            None => out.push(format!("D {p}")),
            Some(vb) if vb != va => out.push(format!("M {p}")),
            _ => {}
        }
    }
    for p in b.keys() {
        if !a.contains_key(p) {
            out.push(format!("A {p}"));
        }
    }
    out
}

struct Child {
    root: PathBuf,
    top: PathBuf,
    data: PathBuf,
    session: String,
    rt: tokio::runtime::Runtime,
    runner: ToolRunner,
    seq: u64,
    ws: Workspace,
    app: Option<App>,
    router_session: Option<String>,
    cp_session: HashMap<String, String>,
    step_cp: HashMap<usize, String>,
    canaries: Vec<String>,
    seen_hits: HashSet<(String, String, String)>,
    sentinels: BTreeMap<String, String>,
    sentinel_dirs: Vec<String>,
    baseline_root: Option<BTreeMap<String, Vec<u8>>>,
    baseline_dirs: Vec<String>,
    baseline_out: Option<Manifest>,
    excl: Vec<String>,
}

#[derive(Default)]
struct StepOut {
    ok: bool,
    error: String,
    driver: String,
    frames: Vec<Value>,
    text: String,
    cp_id: Option<String>,
    cp_files: Option<Vec<String>>,
    cp_auto: bool,
    cp_meta: Option<Value>,
    exit_code: Option<i64>,
    timed_out: bool,
    skipped: Option<String>,
}

pub fn child_main(args: &[String]) -> i32 {
    if args.len() < 2 {
        eprintln!("usage: rv c13-child <spec.json> <out.json>");
        return 2;
    }
    let spec: Value = match std::fs::read(&args[0]).ok().and_then(|b| serde_json::from_slice(&b).ok()) {
        Some(v) => v,
        None => {
            eprintln!("c13-child: cannot read spec");
            return 2;
        }
    };
    crate::fixture::isolate_env();
    let s = |k: &str| spec.get(k).and_then(|x| x.as_str()).unwrap_or("").to_string();
    let root = PathBuf::from(s("root"));
    let top = PathBuf::from(s("top"));
    let data = PathBuf::from(s("data"));
    let cwd = PathBuf::from(s("cwd"));
    let registry = Arc::new(ToolRegistry::default());
    register_builtin_tools(&registry, BuiltinToolConfig { workspace_root: root.clone(), ..BuiltinToolConfig::default() });
    let hook = match MirrorHook::new(root.clone()) {
        Ok(h) => h,
        Err(e) => {
            eprintln!("c13-child: hook: {e}");
            return 2;
        }
    };
    let runner = ToolRunner::with_checkpoint_hook(registry, 2, Arc::new(hook));
    let ws = Workspace::new(&root).expect("workspace");
    let rel = |p: &Path| p.strip_prefix(&top).map(|x| x.to_string_lossy().to_string()).unwrap_or_default();
    let mut sentinels = BTreeMap::new();
    if let Some(m) = spec.get("sentinels").and_then(|x| x.as_object()) {
        for (k, v) in m {
            sentinels.insert(k.clone(), v.as_str().unwrap_or("").to_string());
        }
    }
    let strs = |k: &str| -> Vec<String> {
        spec.get(k)
            .and_then(|x| x.as_array())
            .map(|a| a.iter().filter_map(|x| x.as_str().map(|s| s.to_string())).collect())
            .unwrap_or_default()
    };
    let reset_root = spec.get("reset_root").and_then(|x| x.as_bool()).unwrap_or(false);
    let mut c = Child {
        excl: vec![rel(&root), rel(&data)],
        root: root.clone(),
        top,
        data,
        session: s("session"),
        rt: runtime(2),
        runner,
        seq: 0,
        ws,
        app: None,
        router_session: None,
        cp_session: HashMap::new(),
        step_cp: HashMap::new(),
        canaries: strs("canaries"),
        seen_hits: HashSet::new(),
        sentinels,
        sentinel_dirs: strs("sentinel_dirs"),
        baseline_out: None,
        baseline_root: if reset_root { Some(tree_bytes(&root, &[".rip"])) } else { None },
        baseline_dirs: tree_manifest(&root)
            .into_iter()
            .filter(|(p, v)| v.0 == 'd' && p != ".rip" && !p.starts_with(".rip/"))
            .map(|(p, _)| p)
            .collect(),
    };
    c.baseline_out = Some(c.manifest_outside());
    if std::env::set_current_dir(&cwd).is_err() {
        eprintln!("c13-child: cannot chdir to {}", cwd.display());
        return 2;
    }
    let want_tree = spec.get("want_tree").and_then(|x| x.as_bool()).unwrap_or(false);
    let inode_check = spec.get("inode_check").and_then(|x| x.as_bool()).unwrap_or(false);
    // C14 judges the `tree` only: hashing the whole checkpoint store before and after every step is skipped there
    let root_manifest = spec.get("root_manifest").and_then(|x| x.as_bool()).unwrap_or(true);
    let steps: Vec<Value> = spec.get("steps").and_then(|x| x.as_array()).cloned().unwrap_or_default();
    let mut results: Vec<Value> = Vec::new();
    let t_start = Instant::now();
    let initial_tree = c.tree_json();
    let mut cached_out: Option<Manifest> = None;
    let mut cached_root: Option<Manifest> = None;
    for (i, step) in steps.iter().enumerate() {
        let op = step.get("op").and_then(|x| x.as_str()).unwrap_or("");
        let harness_op = matches!(
            op,
            "fs_write" | "fs_delete" | "fs_mkdir" | "fs_rmtree" | "mutate_sentinels" | "corrupt_cp" | "fs_append" | "fs_replace" | "plant_cp"
        );
        let pre_out = match cached_out.take() {
            Some(m) => m,
            None => c.manifest_outside(),
        };
        let pre_root = match cached_root.take() {
            Some(m) => m,
            None if !root_manifest => Manifest::new(),
            None => tree_manifest(&c.root),
        };
        let _ = std::fs::metadata(format!("/rv-marker/{i}/begin"));
        let t_exec = Instant::now();
        let out = c.exec(i, step);
        let exec_us = t_exec.elapsed().as_micros() as u64;
        let _ = std::fs::metadata(format!("/rv-marker/{i}/end"));
        let post_out = c.manifest_outside();
        let post_root = if root_manifest { tree_manifest(&c.root) } else { Manifest::new() };
        let outside_diff = diff_manifest(&pre_out, &post_out);
        let root_diff = diff_manifest(&pre_root, &post_root);
        let mut hits: Vec<Value> = Vec::new();
        let mut text = out.text.clone();
        for f in &out.frames {
            text.push_str(&f.to_string());
            text.push('\n');
        }
        text.push_str(&out.error);
        for can in &c.canaries {
            if text.contains(can.as_str()) {
                hits.push(json!({"canary": can, "where": "output"}));
            }
        }
        if !harness_op {
            // only files that are new or modified under the root can carry a new canary
            for d in &root_diff {
                if d.starts_with("D ") {
                    continue;
                }
                let p = d[2..].to_string();
                let Ok(bytes) = std::fs::read(c.root.join(&p)) else {
                    // directories: the name itself may carry a canary
                    for can in &c.canaries {
                        if p.contains(can.as_str()) && c.seen_hits.insert((can.clone(), p.clone(), String::new())) {
                            hits.push(json!({"canary": can, "where": format!("root:{p}")}));
                        }
                    }
                    continue;
                };
                let hay = String::from_utf8_lossy(&bytes);
                for can in &c.canaries {
                    if hay.contains(can.as_str()) || p.contains(can.as_str()) {
                        // files outside .rip are reset after every step; copies inside .rip persist
                        let key = (can.clone(), p.clone(), sha256_hex(&bytes));
                        if !p.starts_with(".rip") || c.seen_hits.insert(key) {
                            hits.push(json!({"canary": can, "where": format!("root:{p}")}));
                        }
                    }
                }
            }
        }
        let mut o = Map::new();
        o.insert("op".into(), json!(op));
        o.insert("exec_us".into(), json!(exec_us));
        o.insert("since_start_us".into(), json!(t_start.elapsed().as_micros() as u64));
        o.insert("ok".into(), json!(out.ok));
        o.insert("error".into(), json!(trunc(&out.error, 400)));
        o.insert("driver".into(), json!(out.driver));
        o.insert("frame_kinds".into(), json!(out.frames.iter().map(|f| f.get("type").and_then(|x| x.as_str()).unwrap_or("?").to_string()).collect::<Vec<_>>()));
        o.insert("cp_id".into(), json!(out.cp_id));
        o.insert("cp_files".into(), json!(out.cp_files));
        o.insert("cp_auto".into(), json!(out.cp_auto));
        o.insert("cp_meta".into(), out.cp_meta.clone().unwrap_or(Value::Null));
        o.insert("exit_code".into(), json!(out.exit_code));
        o.insert("timed_out".into(), json!(out.timed_out));
        o.insert("skipped".into(), json!(out.skipped));
        o.insert("outside_diff".into(), json!(outside_diff));
        o.insert("root_diff".into(), json!(root_diff));
        o.insert("canary_hits".into(), Value::Array(hits));
        o.insert("output_excerpt".into(), json!(trunc(&text, 600)));
        if want_tree {
            o.insert("tree".into(), c.tree_json());
        }
        if inode_check {
            let (shared, store_files) = c.store_shared_inodes();
            o.insert("store_shared_inodes".into(), Value::Array(shared));
            o.insert("store_files_checked".into(), json!(store_files));
        }
        results.push(Value::Object(o));
        let mut out_dirty = harness_op;
        let mut root_dirty = harness_op;
        if !harness_op {
            if c.outside_differs_from_baseline(&post_out) {
                c.restore_outside();
                out_dirty = true;
            }
            if c.baseline_root.is_some() && root_diff.iter().any(|d| !d[2..].starts_with(".rip")) {
                c.reset_root();
                root_dirty = true;
            }
        }
        if !out_dirty {
            cached_out = Some(post_out);
        }
        if !root_dirty {
            cached_root = Some(post_root);
        }
    }
    let doc = json!({"initial_tree": initial_tree, "steps": results, "router_session": c.router_session});
    if std::fs::write(&args[1], serde_json::to_vec(&doc).unwrap_or_default()).is_err() {
        return 2;
    }
    drop(c);
    0
}

fn trunc(s: &str, n: usize) -> String {
    if s.len() <= n {
        return s.to_string();
    }
    let mut cut = n;
    while !s.is_char_boundary(cut) {
        cut -= 1;
    }
    format!("{}…", &s[..cut])
}

impl Child {
    fn manifest_outside(&self) -> Manifest {
        fn walk(base: &Path, p: &Path, excl: &[PathBuf], out: &mut Manifest) {
            let Ok(rd) = std::fs::read_dir(p) else {
                return;
            };
            for e in rd.flatten() {
                let path = e.path();
                if excl.iter().any(|x| *x == path) {
                    continue;
                }
                let rel = path.strip_prefix(base).unwrap_or(&path).to_string_lossy().to_string();
                let Ok(md) = std::fs::symlink_metadata(&path) else {
                    continue;
                };
                if md.is_dir() {
                    out.insert(rel, ('d', String::new(), 0));
                    walk(base, &path, excl, out);
                } else if md.is_file() {
                    let bytes = std::fs::read(&path).unwrap_or_default();
                    out.insert(rel, ('f', sha256_hex(&bytes), bytes.len() as u64));
                } else {
                    out.insert(rel, ('o', String::new(), 0));
                }
            }
        }
        let mut out = Manifest::new();
        let excl = vec![self.root.clone(), self.data.clone()];
        walk(&self.top, &self.top, &excl, &mut out);
        out
    }

    fn outside_differs_from_baseline(&self, cur: &Manifest) -> bool {
        match &self.baseline_out {
            Some(b) => b != cur,
            None => true,
        }
    }

    /// path -> [kind, sha256, len] of everything under the root except `.rip` (which is not even read)
    fn tree_json(&self) -> Value {
        fn walk(base: &Path, p: &Path, m: &mut Map<String, Value>) {
            let Ok(rd) = std::fs::read_dir(p) else {
                return;
            };
            for e in rd.flatten() {
                let path = e.path();
                let rel = path.strip_prefix(base).unwrap_or(&path).to_string_lossy().to_string();
                if rel == ".rip" {
                    continue;
                }
                let Ok(md) = std::fs::symlink_metadata(&path) else {
                    continue;
                };
                if md.is_dir() {
                    m.insert(rel, json!(["d", "", 0]));
                    walk(base, &path, m);
                } else if md.is_file() {
                    let bytes = std::fs::read(&path).unwrap_or_default();
                    m.insert(rel, json!(["f", sha256_hex(&bytes), bytes.len() as u64]));
                } else {
                    m.insert(rel, json!(["o", "", 0]));
                }
            }
        }
        let mut m = Map::new();
        walk(&self.root, &self.root, &mut m);
        Value::Object(m)
    }

    /// Put every outside sentinel back (content and existence) and remove anything extra.
    fn restore_outside(&self) {
        let mut expected: HashSet<PathBuf> = HashSet::new();
        for d in &self.sentinel_dirs {
            let p = PathBuf::from(d);
            if !p.is_dir() {
                let _ = std::fs::remove_file(&p);
                let _ = std::fs::create_dir_all(&p);
            }
            expected.insert(p);
        }
        for (p, content) in &self.sentinels {
            let path = PathBuf::from(p);
            if std::fs::read(&path).ok().as_deref() != Some(content.as_bytes()) {
                if path.is_dir() {
                    let _ = std::fs::remove_dir_all(&path);
                }
                if let Some(parent) = path.parent() {
                    let _ = std::fs::create_dir_all(parent);
                }
                let _ = std::fs::write(&path, content);
            }
            expected.insert(path);
        }
        for (p, (k, _, _)) in self.manifest_outside() {
            let abs = self.top.join(&p);
            if !expected.contains(&abs) && !expected.iter().any(|e| e.starts_with(&abs)) {
                if k == 'd' {
                    let _ = std::fs::remove_dir_all(&abs);
                } else {
                    let _ = std::fs::remove_file(&abs);
                }
            }
        }
    }

    fn reset_root(&self) {
        let Some(base) = &self.baseline_root else {
            return;
        };
        if let Ok(rd) = std::fs::read_dir(&self.root) {
            for e in rd.flatten() {
                if e.file_name() == ".rip" {
                    continue;
                }
                let p = e.path();
                if p.is_dir() {
                    let _ = std::fs::remove_dir_all(&p);
                } else {
                    let _ = std::fs::remove_file(&p);
                }
            }
        }
        for d in &self.baseline_dirs {
            let _ = std::fs::create_dir_all(self.root.join(d));
        }
        for (p, b) in base {
            let path = self.root.join(p);
            if let Some(parent) = path.parent() {
                let _ = std::fs::create_dir_all(parent);
            }
            let _ = std::fs::write(path, b);
        }
    }

    fn ensure_router(&mut self) -> Result<(), String> {
        if self.app.is_some() {
            return Ok(());
        }
        let (router, engine) = ripd::verif_export::build_app(self.data.clone(), self.root.clone(), None, false)?;
        let app = App { router, engine };
        let (st, v) = self.rt.block_on(app.json("POST", "/sessions", None));
        if st != 201 {
            return Err(format!("POST /sessions -> {st}"));
        }
        self.router_session = v.get("session_id").and_then(|x| x.as_str()).map(|s| s.to_string());
        self.app = Some(app);
        Ok(())
    }

    fn log_len(&self) -> usize {
        std::fs::metadata(self.data.join("events.jsonl")).map(|m| m.len() as usize).unwrap_or(0)
    }

    fn log_tail(&self, off: usize, stream_id: &str) -> Vec<Value> {
        let bytes = std::fs::read(self.data.join("events.jsonl")).unwrap_or_default();
        let tail = if off <= bytes.len() { &bytes[off..] } else { &bytes[..] };
        String::from_utf8_lossy(tail)
            .lines()
            .filter_map(|l| serde_json::from_str::<Value>(l).ok())
            .filter(|v| {
                v.get("stream_id").and_then(|x| x.as_str()) == Some(stream_id)
                    || v.get("session_id").and_then(|x| x.as_str()) == Some(stream_id)
            })
            .collect()
    }

    /// Post one input envelope to the (single) router session and collect the frames of that run.
    fn router_input(&mut self, input: String) -> Result<(Vec<Value>, bool), String> {
        self.ensure_router()?;
        let sid = self.router_session.clone().unwrap_or_default();
        let app = self.app.clone().expect("app");
        let off = self.log_len();
        let (st, _) = self.rt.block_on(app.json("POST", &format!("/sessions/{sid}/input"), Some(&json!({"input": input}))));
        if st != 202 {
            return Err(format!("POST input -> {st}"));
        }
        let start = Instant::now();
        loop {
            let frames = self.log_tail(off, &sid);
            if frames.iter().any(|f| f.get("type").and_then(|x| x.as_str()) == Some("session_ended")) {
                return Ok((frames, false));
            }
            if start.elapsed() > Duration::from_secs(15) {
                return Ok((frames, true));
            }
            std::thread::sleep(Duration::from_micros(500));
        }
    }

    fn run_tool_runner(&mut self, name: &str, args: Value) -> Vec<Value> {
        let inv = ToolInvocation { name: name.to_string(), args, timeout_ms: Some(20_000) };
        let session = self.session.clone();
        let mut seq = self.seq;
        let events = self.rt.block_on(self.runner.run(&session, &mut seq, inv));
        self.seq = seq;
        events.iter().filter_map(|e| serde_json::to_value(e).ok()).collect()
    }

    fn absorb_tool_frames(&mut self, i: usize, out: &mut StepOut, session: &str) {
        let mut ended = false;
        for f in &out.frames {
            match f.get("type").and_then(|x| x.as_str()).unwrap_or("") {
                "checkpoint_created" => {
                    let id = f.get("checkpoint_id").and_then(|x| x.as_str()).unwrap_or("").to_string();
                    out.cp_files = f.get("files").and_then(|x| x.as_array()).map(|a| {
                        a.iter().filter_map(|x| x.as_str().map(|s| s.to_string())).collect()
                    });
                    out.cp_auto = f.get("auto").and_then(|x| x.as_bool()).unwrap_or(false);
                    out.cp_meta = self.read_meta(session, &id);
                    self.cp_session.insert(id.clone(), session.to_string());
                    self.step_cp.insert(i, id.clone());
                    out.cp_id = Some(id);
                }
                "tool_ended" => {
                    ended = true;
                    out.exit_code = f.get("exit_code").and_then(|x| x.as_i64());
                    out.ok = out.exit_code == Some(0);
                }
                "tool_failed" => {
                    ended = true;
                    out.ok = false;
                    out.error = f.get("error").and_then(|x| x.as_str()).unwrap_or("").to_string();
                }
                "tool_stderr" => {
                    let c = f.get("chunk").and_then(|x| x.as_str()).unwrap_or("");
                    if out.error.len() < 400 {
                        out.error.push_str(c);
                    }
                }
                "checkpoint_failed" => {
                    let c = f.get("error").and_then(|x| x.as_str()).unwrap_or("");
                    out.error.push_str(&format!("[checkpoint_failed: {c}] "));
                }
                _ => {}
            }
        }
        if !ended {
            out.ok = false;
            if out.error.is_empty() {
                out.error = "no terminal tool frame".into();
            }
        }
    }

    fn read_meta(&self, session: &str, id: &str) -> Option<Value> {
        let p = self.root.join(".rip").join("checkpoints").join(session).join(id).join("checkpoint.json");
        std::fs::read(p).ok().and_then(|b| serde_json::from_slice(&b).ok())
    }

    fn exec(&mut self, i: usize, step: &Value) -> StepOut {
        let mut out = StepOut::default();
        let op = step.get("op").and_then(|x| x.as_str()).unwrap_or("").to_string();
        let driver = step.get("driver").and_then(|x| x.as_str()).unwrap_or("runner").to_string();
        out.driver = driver.clone();
        let st = |k: &str| step.get(k).and_then(|x| x.as_str()).unwrap_or("").to_string();
        match op.as_str() {
            "tool" => {
                let name = st("name");
                let mut args = step.get("args").cloned().unwrap_or(json!({}));
                // large contents travel as (seed, bytes) and are expanded here (same generator as the parent's model)
                if let Some(g) = step.get("content_gen") {
                    let bytes = gen_spec_bytes(g);
                    args["content"] = json!(String::from_utf8_lossy(&bytes).to_string());
                }
                if driver == "router" {
                    let env = json!({"tool": name, "args": args, "timeout_ms": 20000}).to_string();
                    match self.router_input(env) {
                        Ok((frames, to)) => {
                            out.frames = frames;
                            out.timed_out = to;
                            let sid = self.router_session.clone().unwrap_or_default();
                            self.absorb_tool_frames(i, &mut out, &sid);
                        }
                        Err(e) => {
                            out.skipped = Some(e);
                        }
                    }
                } else {
                    out.frames = self.run_tool_runner(&name, args);
                    let sid = self.session.clone();
                    self.absorb_tool_frames(i, &mut out, &sid);
                }
            }
            "ws_patch" => {
                out.driver = "direct".into();
                match self.ws.apply_patch(&st("patch")) {
                    Ok(r) => {
                        out.ok = true;
                        out.text = json!(r.changed_files).to_string();
                    }
                    Err(e) => out.error = e.to_string(),
                }
            }
            "cp_create" => {
                let files: Vec<String> = step
                    .get("files")
                    .and_then(|x| x.as_array())
                    .map(|a| a.iter().filter_map(|x| x.as_str().map(|s| s.to_string())).collect())
                    .unwrap_or_default();
                let label = st("label");
                match driver.as_str() {
                    "direct" => {
                        let paths: Vec<PathBuf> = files.iter().map(PathBuf::from).collect();
                        let session = self.session.clone();
                        match self.ws.create_checkpoint(&session, label, &paths) {
                            Ok(cp) => {
                                out.ok = true;
                                out.cp_files = Some(cp.files.iter().map(|f| f.path.clone()).collect());
                                out.cp_meta = serde_json::to_value(&cp).ok();
                                self.cp_session.insert(cp.id.clone(), session);
                                self.step_cp.insert(i, cp.id.clone());
                                out.text = serde_json::to_string(&cp).unwrap_or_default();
                                out.cp_id = Some(cp.id);
                            }
                            Err(e) => out.error = e.to_string(),
                        }
                    }
                    "router" => {
                        let env = json!({"checkpoint": {"action": "create", "label": label, "files": files}}).to_string();
                        match self.router_input(env) {
                            Ok((frames, to)) => {
                                out.frames = frames;
                                out.timed_out = to;
                                let sid = self.router_session.clone().unwrap_or_default();
                                self.absorb_cp_frames(i, &mut out, &sid);
                            }
                            Err(e) => out.skipped = Some(e),
                        }
                    }
                    _ => {
                        let session = self.session.clone();
                        let mut seq = self.seq;
                        let events =
                            self.runner.create_checkpoint(&session, &mut seq, label, files.iter().map(PathBuf::from).collect());
                        self.seq = seq;
                        out.frames = events.iter().filter_map(|e| serde_json::to_value(e).ok()).collect();
                        self.absorb_cp_frames(i, &mut out, &session);
                    }
                }
            }
            "cp_rewind" => {
                let id = match step.get("ref").and_then(|x| x.as_u64()) {
                    Some(k) => match self.step_cp.get(&(k as usize)) {
                        Some(id) => id.clone(),
                        None => {
                            out.skipped = Some(format!("step {k} created no checkpoint"));
                            return out;
                        }
                    },
                    None => st("id"),
                };
                out.cp_id = Some(id.clone());
                let known_session = self.cp_session.get(&id).cloned();
                let router_sid = self.router_session.clone();
                let mut drv = driver.clone();
                if drv == "router" {
                    if let Some(s) = &known_session {
                        if Some(s) != router_sid.as_ref() {
                            drv = "runner".into();
                        }
                    }
                }
                let id_is_known = known_session.is_some();
                let session = known_session.unwrap_or_else(|| {
                    if drv == "router" {
                        router_sid.clone().unwrap_or_else(|| self.session.clone())
                    } else {
                        self.session.clone()
                    }
                });
                // (never follow a caller-supplied id ourselves: the strace monitor watches this window)
                if id_is_known {
                    out.cp_meta = self.read_meta(&session, &id);
                }
                out.driver = drv.clone();
                match drv.as_str() {
                    "direct" => match self.ws.rewind_to_checkpoint(&session, &id) {
                        Ok(()) => out.ok = true,
                        Err(e) => out.error = e.to_string(),
                    },
                    "router" => {
                        let env = json!({"checkpoint": {"action": "rewind", "id": id}}).to_string();
                        match self.router_input(env) {
                            Ok((frames, to)) => {
                                out.frames = frames;
                                out.timed_out = to;
                                self.absorb_cp_frames(i, &mut out, &session);
                            }
                            Err(e) => out.skipped = Some(e),
                        }
                    }
                    _ => {
                        let mut seq = self.seq;
                        let events = self.runner.rewind_checkpoint(&session, &mut seq, &id);
                        self.seq = seq;
                        out.frames = events.iter().filter_map(|e| serde_json::to_value(e).ok()).collect();
                        self.absorb_cp_frames(i, &mut out, &session);
                    }
                }
            }
            "task" => {
                out.driver = "router".into();
                if let Err(e) = self.ensure_router() {
                    out.skipped = Some(e);
                    return out;
                }
                let app = self.app.clone().expect("app");
                let off = self.log_len();
                let args = step.get("args").cloned().unwrap_or(json!({}));
                let (stc, v) = self.rt.block_on(app.json("POST", "/tasks", Some(&json!({"tool": "bash", "args": args}))));
                if stc != 201 {
                    out.error = format!("POST /tasks -> {stc}");
                    return out;
                }
                let tid = v.get("task_id").and_then(|x| x.as_str()).unwrap_or("").to_string();
                let start = Instant::now();
                let mut status = String::new();
                let mut last = Value::Null;
                while start.elapsed() < Duration::from_secs(15) {
                    let (_, v) = self.rt.block_on(app.json("GET", &format!("/tasks/{tid}"), None));
                    status = v.get("status").and_then(|x| x.as_str()).unwrap_or("").to_string();
                    last = v;
                    if matches!(status.as_str(), "exited" | "failed" | "cancelled") {
                        break;
                    }
                    std::thread::sleep(Duration::from_millis(3));
                }
                out.timed_out = !matches!(status.as_str(), "exited" | "failed" | "cancelled");
                out.exit_code = last.get("exit_code").and_then(|x| x.as_i64());
                out.ok = status == "exited" && out.exit_code == Some(0);
                out.error = last.get("error").and_then(|x| x.as_str()).unwrap_or("").to_string();
                for stream in ["stdout", "stderr"] {
                    let (_, b) = self.rt.block_on(app.call("GET", &format!("/tasks/{tid}/output?stream={stream}"), None));
                    out.text.push_str(&String::from_utf8_lossy(&b));
                }
                std::thread::sleep(Duration::from_millis(3));
                out.frames = self.log_tail(off, &tid);
            }
            "fs_write" => {
                let p = PathBuf::from(st("path"));
                if let Some(parent) = p.parent() {
                    let _ = std::fs::create_dir_all(parent);
                }
                let bytes = match (step.get("gen"), step.get("hex").and_then(|x| x.as_str())) {
                    (Some(g), _) => gen_spec_bytes(g),
                    (None, Some(h)) => hex::decode(h).unwrap_or_default(),
                    (None, None) => st("text").into_bytes(),
                };
                // in place: truncates and rewrites the existing inode
                out.ok = std::fs::write(&p, bytes).is_ok();
            }
            "fs_append" => {
                // external in-place edit that keeps the inode and the existing bytes
                use std::io::Write;
                let bytes = match step.get("gen") {
                    Some(g) => gen_spec_bytes(g),
                    None => st("text").into_bytes(),
                };
                out.ok = std::fs::OpenOptions::new()
                    .append(true)
                    .open(st("path"))
                    .and_then(|mut f| f.write_all(&bytes))
                    .is_ok();
            }
            "fs_replace" => {
                // external edit that replaces the file by renaming a new one over it (new inode)
                let p = PathBuf::from(st("path"));
                let bytes = match step.get("gen") {
                    Some(g) => gen_spec_bytes(g),
                    None => st("text").into_bytes(),
                };
                if let Some(parent) = p.parent() {
                    let _ = std::fs::create_dir_all(parent);
                }
                let tmp = p.with_file_name(format!(".rv-replace-{i}.tmp"));
                out.ok = std::fs::write(&tmp, bytes).is_ok() && std::fs::rename(&tmp, &p).is_ok();
                if !out.ok {
                    let _ = std::fs::remove_file(&tmp);
                }
            }
            "plant_cp" => self.plant_cp(i, step, &mut out),
            "fs_delete" => out.ok = std::fs::remove_file(st("path")).is_ok(),
            "fs_mkdir" => out.ok = std::fs::create_dir_all(st("path")).is_ok(),
            "fs_rmtree" => out.ok = std::fs::remove_dir_all(st("path")).is_ok(),
            "mutate_sentinels" => {
                for (p, content) in &self.sentinels {
                    let _ = std::fs::write(p, format!("{content}-CHANGED-LATER\n"));
                }
                out.ok = true;
            }
            "corrupt_cp" => {
                let Some(id) = step.get("ref").and_then(|x| x.as_u64()).and_then(|k| self.step_cp.get(&(k as usize)).cloned()) else {
                    out.skipped = Some("no checkpoint to corrupt".into());
                    return out;
                };
                let session = self.cp_session.get(&id).cloned().unwrap_or_else(|| self.session.clone());
                let dir = self.root.join(".rip").join("checkpoints").join(&session).join(&id);
                out.cp_id = Some(id);
                out.cp_meta = std::fs::read(dir.join("checkpoint.json")).ok().and_then(|b| serde_json::from_slice(&b).ok());
                match st("how").as_str() {
                    "json_garbage" => out.ok = std::fs::write(dir.join("checkpoint.json"), b"{not json").is_ok(),
                    "json_truncate" => {
                        let b = std::fs::read(dir.join("checkpoint.json")).unwrap_or_default();
                        out.ok = std::fs::write(dir.join("checkpoint.json"), &b[..b.len() / 2]).is_ok();
                    }
                    "remove_meta" => out.ok = std::fs::remove_file(dir.join("checkpoint.json")).is_ok(),
                    _ => {
                        // remove the LAST stored file so that earlier entries are restored before the failure
                        let stored = tree_bytes(&dir.join("files"), &[]);
                        let order: Vec<String> = out
                            .cp_meta
                            .as_ref()
                            .and_then(|m| m.get("files"))
                            .and_then(|f| f.as_array())
                            .map(|a| {
                                a.iter()
                                    .filter(|e| e.get("exists").and_then(|x| x.as_bool()) == Some(true))
                                    .filter_map(|e| e.get("path").and_then(|x| x.as_str()).map(|s| s.to_string()))
                                    .collect()
                            })
                            .unwrap_or_default();
                        let victim = order.iter().rev().find(|p| stored.contains_key(*p)).cloned();
                        match victim {
                            Some(v) => {
                                out.ok = std::fs::remove_file(dir.join("files").join(&v)).is_ok();
                                out.text = format!("removed stored copy of {v}");
                            }
                            None => out.skipped = Some("checkpoint stores no file".into()),
                        }
                    }
                }
            }
            other => out.skipped = Some(format!("unknown op {other}")),
        }
        out
    }

    /// Plant a well-formed checkpoint manifest (and, where asked, stored copies) under the session's store directory:
    /// the manifest goes through the system's own `write` tool (`via: "tool"`, a legal workspace-relative path) or
    /// directly onto the disk. Stored copies are written by the harness at the LEXICAL resolution of
    /// `<cp>/files/<path>` and only when that stays below `<root>/.rip` (the harness never follows a hostile path).
    fn plant_cp(&mut self, i: usize, step: &Value, out: &mut StepOut) {
        let st = |k: &str| step.get(k).and_then(|x| x.as_str()).unwrap_or("").to_string();
        let driver = st("driver");
        let id = st("id");
        if id.is_empty() || id.contains('/') || id.contains("..") {
            out.skipped = Some("plant_cp: bad id".into());
            return;
        }
        let session = if driver == "router" {
            if let Err(e) = self.ensure_router() {
                out.skipped = Some(e);
                return;
            }
            self.router_session.clone().unwrap_or_default()
        } else {
            self.session.clone()
        };
        if session.is_empty() || session.contains('/') || session.contains("..") {
            out.skipped = Some("plant_cp: no session".into());
            return;
        }
        let entries: Vec<Value> = step.get("entries").and_then(|x| x.as_array()).cloned().unwrap_or_default();
        let files: Vec<Value> = entries
            .iter()
            .map(|e| json!({"path": e.get("path").cloned().unwrap_or(json!("")), "exists": e.get("exists").cloned().unwrap_or(json!(false)), "sha256": null}))
            .collect();
        let manifest = json!({
            "id": step.get("manifest_id").and_then(|x| x.as_str()).unwrap_or(&id),
            "session_id": step.get("manifest_session").and_then(|x| x.as_str()).unwrap_or(&session),
            "label": "planted", "created_at_ms": 1 + i as u64, "files": files,
        });
        let rel_dir = format!(".rip/checkpoints/{session}/{id}");
        let cp_dir = self.root.join(&rel_dir);
        let body = serde_json::to_string_pretty(&manifest).unwrap_or_default();
        let via = st("via");
        let planted = if via == "tool" {
            let args = json!({"path": format!("{rel_dir}/checkpoint.json"), "content": body});
            if driver == "router" {
                let env = json!({"tool": "write", "args": args, "timeout_ms": 20000}).to_string();
                match self.router_input(env) {
                    Ok((frames, to)) => {
                        out.timed_out = to;
                        frames.iter().any(|f| f.get("type").and_then(|x| x.as_str()) == Some("tool_ended") && f.get("exit_code").and_then(|x| x.as_i64()) == Some(0))
                    }
                    Err(e) => {
                        out.skipped = Some(e);
                        return;
                    }
                }
            } else {
                let frames = self.run_tool_runner("write", args);
                frames.iter().any(|f| f.get("type").and_then(|x| x.as_str()) == Some("tool_ended") && f.get("exit_code").and_then(|x| x.as_i64()) == Some(0))
            }
        } else {
            std::fs::create_dir_all(&cp_dir).is_ok() && std::fs::write(cp_dir.join("checkpoint.json"), body.as_bytes()).is_ok()
        };
        // what is on disk must be the manifest we meant to plant
        out.ok = planted && std::fs::read(cp_dir.join("checkpoint.json")).ok().as_deref() == Some(body.as_bytes());
        let dot_rip = self.root.join(".rip");
        let mut stored = 0;
        for (n, e) in entries.iter().enumerate() {
            if e.get("stored").and_then(|x| x.as_bool()) != Some(true) {
                continue;
            }
            let p = e.get("path").and_then(|x| x.as_str()).unwrap_or("");
            if p.is_empty() || p.contains('\0') || Path::new(p).is_absolute() {
                continue;
            }
            let mut dest = cp_dir.join("files");
            let mut sane = true;
            for c in Path::new(p).components() {
                match c {
                    std::path::Component::Normal(s) => dest.push(s),
                    std::path::Component::ParentDir => {
                        dest.pop();
                    }
                    std::path::Component::CurDir => {}
                    _ => sane = false,
                }
            }
            if !sane || !dest.starts_with(&dot_rip) || dest == dot_rip || dest.is_dir() || dest == cp_dir.join("checkpoint.json") {
                continue;
            }
            if let Some(parent) = dest.parent() {
                let _ = std::fs::create_dir_all(parent);
            }
            if std::fs::write(&dest, format!("planted stored copy {i}.{n}\n")).is_ok() {
                stored += 1;
            }
        }
        out.text = format!("planted {rel_dir} (via {via}), stored copies {stored}");
        out.cp_meta = Some(manifest);
        if out.ok {
            self.cp_session.insert(id.clone(), session);
            self.step_cp.insert(i, id.clone());
            out.cp_id = Some(id);
        }
    }

    /// Regular files below `.rip/checkpoints` that have a hard link OUTSIDE the store: (st_dev, st_ino) is compared
    /// with every regular file of the root outside the store, and `st_nlink` with the number of links the store
    /// itself holds (a partner anywhere else on the file system shows up there). Returns (findings, files checked).
    fn store_shared_inodes(&self) -> (Vec<Value>, u64) {
        use std::os::unix::fs::MetadataExt;
        fn walk(p: &Path, skip: &Path, f: &mut dyn FnMut(&Path, &std::fs::Metadata)) {
            let Ok(rd) = std::fs::read_dir(p) else {
                return;
            };
            for e in rd.flatten() {
                let path = e.path();
                if path == skip {
                    continue;
                }
                let Ok(md) = std::fs::symlink_metadata(&path) else {
                    continue;
                };
                if md.is_dir() {
                    walk(&path, skip, f);
                } else if md.is_file() {
                    f(&path, &md);
                }
            }
        }
        let store = self.root.join(".rip").join("checkpoints");
        let mut in_store: Vec<(PathBuf, u64, u64, u64)> = Vec::new();
        walk(&store, Path::new(""), &mut |p, md| in_store.push((p.to_path_buf(), md.dev(), md.ino(), md.nlink())));
        let checked = in_store.len() as u64;
        if in_store.iter().all(|x| x.3 <= 1) {
            return (Vec::new(), checked);
        }
        let mut links_in_store: HashMap<(u64, u64), u64> = HashMap::new();
        for (_, d, i, _) in &in_store {
            *links_in_store.entry((*d, *i)).or_insert(0) += 1;
        }
        let mut outside: HashMap<(u64, u64), String> = HashMap::new();
        walk(&self.root, &store, &mut |p, md| {
            if md.nlink() > 1 {
                outside.insert((md.dev(), md.ino()), p.strip_prefix(&self.root).unwrap_or(p).to_string_lossy().to_string());
            }
        });
        let mut found = Vec::new();
        for (p, d, i, nlink) in &in_store {
            let held = links_in_store.get(&(*d, *i)).copied().unwrap_or(1);
            if *nlink > held {
                found.push(json!({
                    "store_file": p.strip_prefix(&self.root).unwrap_or(p).to_string_lossy(),
                    "nlink": nlink, "links_inside_store": held,
                    "workspace_file": outside.get(&(*d, *i)),
                }));
            }
        }
        (found, checked)
    }

    fn absorb_cp_frames(&mut self, i: usize, out: &mut StepOut, session: &str) {
        for f in &out.frames {
            match f.get("type").and_then(|x| x.as_str()).unwrap_or("") {
                "checkpoint_created" => {
                    out.ok = true;
                    let id = f.get("checkpoint_id").and_then(|x| x.as_str()).unwrap_or("").to_string();
                    out.cp_files = f.get("files").and_then(|x| x.as_array()).map(|a| {
                        a.iter().filter_map(|x| x.as_str().map(|s| s.to_string())).collect()
                    });
                    out.cp_meta = self.read_meta(session, &id);
                    self.cp_session.insert(id.clone(), session.to_string());
                    self.step_cp.insert(i, id.clone());
                    out.cp_id = Some(id);
                }
                "checkpoint_rewound" => {
                    out.ok = true;
                    out.cp_files = f.get("files").and_then(|x| x.as_array()).map(|a| {
                        a.iter().filter_map(|x| x.as_str().map(|s| s.to_string())).collect()
                    });
                }
                "checkpoint_failed" => {
                    out.ok = false;
                    out.error = f.get("error").and_then(|x| x.as_str()).unwrap_or("").to_string();
                }
                _ => {}
            }
        }
    }
}

// ------------------------------------------------------------------------------------------
// deterministic line-structured content (child and parent expand the same (seed, bytes) spec)
// ------------------------------------------------------------------------------------------

/// Exactly `bytes` bytes of LF-terminated ASCII lines, every line unique (tag + running number), so that
/// `apply_patch` Update hunks cut from it apply unambiguously. `bytes == 0` gives an empty file.
pub fn gen_content(seed: u64, bytes: usize) -> Vec<u8> {
    let mut out: Vec<u8> = Vec::with_capacity(bytes + 80);
    let mut n = 0u64;
    let mut x = seed.wrapping_mul(0x9E37_79B9_7F4A_7C15) | 1;
    while out.len() < bytes {
        x ^= x << 13;
        x ^= x >> 7;
        x ^= x << 17;
        let fill = 8 + (x % 48) as usize;
        let line = format!("g{seed:x} line {n:06} {}\n", "abcdefghijklmnopqrstuvwxyz0123456789ABCDEFGHIJKLMNOPQRSTUVWXYZ".chars().cycle().skip((x % 62) as usize).take(fill).collect::<String>());
        out.extend_from_slice(line.as_bytes());
        n += 1;
    }
    out.truncate(bytes);
    let len = out.len();
    if len >= 1 {
        out[len - 1] = b'\n';
    }
    // a cut that lands right after a line feed would leave an empty last line: keep every line non-empty
    if len >= 2 && out[len - 2] == b'\n' {
        out[len - 2] = b'#';
    }
    out
}

pub fn gen_spec_bytes(g: &Value) -> Vec<u8> {
    let seed = g.get("seed").and_then(|x| x.as_u64()).unwrap_or(0);
    let bytes = g.get("bytes").and_then(|x| x.as_u64()).unwrap_or(0) as usize;
    gen_content(seed, bytes)
}

// ------------------------------------------------------------------------------------------
// parent-side helpers
// ------------------------------------------------------------------------------------------

pub struct ChildRun {
    pub doc: Option<Value>,
    pub error: Option<String>,
    pub strace_log: Option<PathBuf>,
}

/// Run the child on `spec`; `strace` wraps it in `strace -f -e trace=%file`.
pub fn run_child(dir: &Path, spec: &Value, strace: bool, timeout: Duration) -> ChildRun {
    let spec_path = dir.join("spec.json");
    let out_path = dir.join("out.json");
    let _ = std::fs::remove_file(&out_path);
    if std::fs::write(&spec_path, serde_json::to_vec(spec).unwrap_or_default()).is_err() {
        return ChildRun { doc: None, error: Some("cannot write spec".into()), strace_log: None };
    }
    let exe = match std::env::current_exe() {
        Ok(e) => e,
        Err(e) => return ChildRun { doc: None, error: Some(format!("current_exe: {e}")), strace_log: None },
    };
    let log = dir.join("strace.log");
    let mut cmd = if strace {
        let mut c = std::process::Command::new("strace");
        c.arg("-f").arg("-qq").arg("-s").arg("4096").arg("-e").arg("trace=%file").arg("-o").arg(&log).arg(&exe);
        c
    } else {
        std::process::Command::new(&exe)
    };
    cmd.arg("c13-child").arg(&spec_path).arg(&out_path);
    cmd.stdout(std::process::Stdio::null());
    cmd.stderr(std::process::Stdio::piped());
    cmd.env("RV_TMPDIR", dir.join("child-scratch"));
    // shells stat $PWD / $OLDPWD at start-up: keep the parent's working directory out of the child's syscalls
    cmd.env_remove("PWD");
    cmd.env_remove("OLDPWD");
    let mut child = match cmd.spawn() {
        Ok(c) => c,
        Err(e) => return ChildRun { doc: None, error: Some(format!("spawn: {e}")), strace_log: None },
    };
    let start = Instant::now();
    let status = loop {
        match child.try_wait() {
            Ok(Some(s)) => break Some(s),
            Ok(None) => {
                if start.elapsed() > timeout {
                    let _ = child.kill();
                    let _ = child.wait();
                    break None;
                }
                std::thread::sleep(Duration::from_millis(2));
            }
            Err(_) => break None,
        }
    };
    let mut stderr = String::new();
    if let Some(mut e) = child.stderr.take() {
        use std::io::Read;
        let _ = e.read_to_string(&mut stderr);
    }
    let Some(status) = status else {
        return ChildRun { doc: None, error: Some("child watchdog fired".into()), strace_log: None };
    };
    let doc: Option<Value> = std::fs::read(&out_path).ok().and_then(|b| serde_json::from_slice(&b).ok());
    if doc.is_none() {
        return ChildRun {
            doc: None,
            error: Some(format!("child exited with {status} and no result: {}", trunc(&stderr, 300))),
            strace_log: None,
        };
    }
    ChildRun { doc, error: None, strace_log: if strace { Some(log) } else { None } }
}
