//! C03 — replay fidelity: live frames = log = sidecar = snapshot; lossless frame round trip.
//!
//! (A) frames: a table-driven generator builds a `rip_kernel::Event` for EVERY `EventKind`
//! variant (optional fields absent/present, empty collections, awkward unicode, 64 KiB strings,
//! nested JSON with null / u64::MAX / negative / float / deep nesting in every `Value` field),
//! every leaf a unique token. Oracle, independent of the exact wire shape:
//!   (i)   wire(e) == wire(read(wire(e))) on JSON values (absent == null for top-level keys only),
//!   (ii)  stream_kind()/stream_id() of the re-read frame equal the original's (and the documented kind),
//!   (iii) every token / full string / unique number occurs in wire(e),
//!   (iv)  every token occurs in the Debug rendering of read(wire(e)); Debug(e) == Debug(read) unless
//!         an Option<Value> held Some(null),
//!   (v)   the documented envelope keys are present with the right values,
//! the same through `EventLog::append`→`replay`/`replay_stream` and `write_snapshot`→`read_snapshot`.
//! Compat aliases (`prompt`, `output`, `content`) are fed as inputs too.
//!
//! (B) histories: C01-style workloads with live collectors attached from the first frame; after
//! quiescence, per continuity: live == log filtered == sidecar file == `replay_events()` (cache and
//! log path) == thread SSE replay; per session / task: live == log == snapshot file and
//! `rip_log::verify_snapshot` passes. Frame-for-frame JSON equality in order.
//!
//! (B, directed sweep — c03_depth.rs) one short end-to-end run per JSON nesting depth D (every D around the
//! readers' and rip's own limits in quick, every D in 2..=140 in thorough; sharded by depth) and per door through
//! which nested JSON enters a frame (provider event payload, model-supplied tool-call arguments, tool envelope
//! typed as input, `POST /tasks` args; arrays / objects / seeded mix), each judged with the whole part-B oracle:
//! live == log, snapshot reads back and == log, verify_snapshot, continuity places, whole-store replay.

use crate::report::{Cfg, Report};
use crate::truth;
use rip_kernel::Event;
use serde_json::{json, Value};

#[path = "c03_gen.rs"]
mod gen;
#[path = "c03_hist.rs"]
mod hist;
#[path = "c03_depth.rs"]
mod depth;

use gen::{documented_stream_kind, variant_name, Flavor, Gen, FLAVORS, N_VARIANTS};

pub fn run(cfg: &Cfg) -> i32 {
    let mut r = Report::new(
        "C03",
        "exploration",
        "(A) generated frames: every EventKind variant × 8 payload flavours × seeded leaves, each round-tripped \
         through serde, EventLog append/replay and snapshot write/read; distinct = distinct (variant, flavour, \
         presence/shape signature); (B) seeded histories (actor threads over continuities + sessions + tasks via \
         engine and router, live collectors from the first frame, restart, cache deletion) compared place by \
         place; distinct = distinct (stream kind, frame-type sequence) of the compared streams; plus a directed sweep: \
         every JSON nesting depth around the limits × every door nested JSON enters a frame through × shape, one \
         end-to-end run each, same place-by-place oracle; distinct = (door, shape, depth, how the payload was recorded)",
    );
    r.assume("floats in generated payloads are dyadic (serde_json without float_roundtrip does not promise more)");
    if let Some(path) = cfg.replay.clone() {
        let v: Value = std::fs::read(&path).ok().and_then(|b| serde_json::from_slice(&b).ok()).unwrap_or(Value::Null);
        let seed = v.get("seed").and_then(|x| x.as_u64()).unwrap_or(cfg.seed);
        let w = v.get("witness").cloned().unwrap_or(Value::Null);
        match w.get("part").and_then(|x| x.as_str()) {
            Some("B") => {
                let case = w.get("case").and_then(|x| x.as_u64()).unwrap_or(0);
                let rt = crate::fixture::runtime(8);
                let mut c2 = cfg.clone();
                c2.seed = seed;
                if case >= depth::SWEEP_CASE_BASE {
                    depth::one_depth(&c2, &mut r, &rt, (case - depth::SWEEP_CASE_BASE) as usize);
                } else {
                    let mut rng = crate::prng::Rng::derive(seed, 1_000_000 + case);
                    hist::one_history(&c2, &mut r, &rt, &mut rng, case);
                }
            }
            _ => {
                let case = w.get("case").and_then(|x| x.as_u64()).unwrap_or(0);
                frames_case(&mut r, seed, case);
                directed_frames(&mut r);
            }
        }
        return r.finish(cfg);
    }

    // `rv C03 --depth-sweep-only`: just the directed nesting-depth sweep of part B (development aid)
    if cfg.has_flag("--depth-sweep-only") {
        let rt = crate::fixture::runtime(8);
        depth::sweep(cfg, &mut r, &rt);
        return r.finish(cfg);
    }
    // ---- (A) ----
    // directed inputs run in every shard that owns case 0 (deterministic, cheap)
    if cfg.mine(0) {
        directed_frames(&mut r);
    }
    let a_budget = cfg.budget_s * 0.35;
    let a_cases = cfg.tier.pick(24_000u64, 4_000_000u64);
    let mut i = 0u64;
    let mut batch: Vec<Event> = Vec::new();
    while i < a_cases && r.elapsed() < a_budget {
        let idx = i;
        i += 1;
        if !cfg.mine(idx) {
            continue;
        }
        if let Some(e) = frames_case(&mut r, cfg.seed, idx) {
            batch.push(e);
        }
        if batch.len() >= 76 {
            files_round_trip(&mut r, &mut batch, idx);
        }
    }
    if !batch.is_empty() {
        files_round_trip(&mut r, &mut batch, i);
    }
    r.count("a_cases_generated", r.evaluations);

    // ---- (B) ----
    let rt = crate::fixture::runtime(8);
    let s = crate::sched::sched();
    // directed sweep over payload nesting depths (sharded by depth; every depth is run by exactly one shard)
    depth::sweep(cfg, &mut r, &rt);
    let mut case = 0u64;
    let max_cases = cfg.tier.pick(400u64, 1_000_000u64);
    while case < max_cases && !r.over(cfg) {
        let idx = case;
        case += 1;
        if !cfg.mine(idx) {
            continue;
        }
        let mut rng = cfg.case_rng(1_000_000 + idx);
        hist::one_history(cfg, &mut r, &rt, &mut rng, idx);
    }
    s.reset();
    drop(rt);
    if r.counters.get("b_streams_compared").copied().unwrap_or(0) == 0 && r.violations.is_empty() {
        r.inconclusive("no history stream was compared in this shard");
    }
    r.finish(cfg)
}

// ---------------------------------------------------------------------------------------------
// (A) oracle

fn wire(e: &Event) -> Result<(String, Value), (&'static str, String)> {
    let text = serde_json::to_string(e).map_err(|e| ("serialize_failed", format!("serialize: {e}")))?;
    let v: Value = serde_json::from_str(&text)
        .map_err(|e| ("wire_unparseable", format!("the serialized frame is rejected by the JSON reader: {e}")))?;
    Ok((text, v))
}

/// Strict JSON equality, except that at the top level of a frame an absent key equals null.
pub fn frame_eq(a: &Value, b: &Value) -> bool {
    // `resets[*].ref` is an Option<Value> too: Some(null) and None are the same wire value there
    fn strip_ref_nulls(v: &Value) -> Value {
        let mut v = v.clone();
        if let Some(rs) = v.get_mut("resets").and_then(|x| x.as_array_mut()) {
            for r in rs {
                if let Some(m) = r.as_object_mut() {
                    if m.get("ref").map(|x| x.is_null()).unwrap_or(false) {
                        m.remove("ref");
                    }
                }
            }
        }
        v
    }
    let has_resets = |v: &Value| v.get("resets").is_some();
    if has_resets(a) || has_resets(b) {
        return frame_eq_top(&strip_ref_nulls(a), &strip_ref_nulls(b));
    }
    frame_eq_top(a, b)
}

fn frame_eq_top(a: &Value, b: &Value) -> bool {
    match (a, b) {
        (Value::Object(x), Value::Object(y)) => {
            for (k, v) in x {
                match y.get(k) {
                    Some(w) => {
                        if !strict_eq(v, w) {
                            return false;
                        }
                    }
                    None => {
                        if !v.is_null() {
                            return false;
                        }
                    }
                }
            }
            y.iter().all(|(k, w)| x.contains_key(k) || w.is_null())
        }
        _ => strict_eq(a, b),
    }
}

pub fn strict_eq(a: &Value, b: &Value) -> bool {
    match (a, b) {
        (Value::Object(x), Value::Object(y)) => {
            x.len() == y.len() && x.iter().all(|(k, v)| y.get(k).map(|w| strict_eq(v, w)).unwrap_or(false))
        }
        (Value::Array(x), Value::Array(y)) => x.len() == y.len() && x.iter().zip(y).all(|(p, q)| strict_eq(p, q)),
        (Value::Number(x), Value::Number(y)) => {
            if x == y {
                return true;
            }
            // same mathematical value in a different number class (1 vs 1.0) is not a loss
            match (x.as_u64(), y.as_u64(), x.as_i64(), y.as_i64()) {
                (Some(p), Some(q), _, _) => p == q,
                (_, _, Some(p), Some(q)) => p == q,
                _ => x.is_f64() && y.is_f64() && x.as_f64() == y.as_f64(),
            }
        }
        _ => a == b,
    }
}

fn leaves<'a>(v: &'a Value, strings: &mut Vec<&'a str>, numbers: &mut Vec<&'a serde_json::Number>) {
    match v {
        Value::String(s) => strings.push(s),
        Value::Number(n) => numbers.push(n),
        Value::Array(a) => a.iter().for_each(|x| leaves(x, strings, numbers)),
        Value::Object(m) => {
            for (k, x) in m {
                strings.push(k);
                leaves(x, strings, numbers);
            }
        }
        _ => {}
    }
}

/// All tokens `<prefix><digits>z` occurring in `hay`, in one pass.
fn tokens_in(hay: &str, prefix: &str, out: &mut std::collections::HashSet<String>) {
    if prefix.is_empty() {
        return;
    }
    let bytes = hay.as_bytes();
    for (pos, _) in hay.match_indices(prefix) {
        let mut j = pos + prefix.len();
        let start = j;
        while j < bytes.len() && bytes[j].is_ascii_digit() {
            j += 1;
        }
        if j > start && j < bytes.len() && bytes[j] == b'z' {
            out.insert(hay[pos..=j].to_string());
        }
    }
}

fn token_prefix(tokens: &[String]) -> String {
    // tokens are `tk<salt>q<n>z`
    tokens.first().and_then(|t| t.rfind('q').map(|i| t[..=i].to_string())).unwrap_or_default()
}

struct Expected {
    tokens: Vec<String>,
    strings: Vec<String>,
    numbers: Vec<serde_json::Number>,
    some_null: bool,
}

/// Judge one frame through the serde round trip. Returns a list of (check, detail) failures.
fn judge_frame(e: &Event, exp: &Expected) -> Vec<(&'static str, String)> {
    let mut bad: Vec<(&'static str, String)> = Vec::new();
    let name = variant_name(&e.kind);
    let (text, w) = match wire(e) {
        Ok(x) => x,
        Err((check, err)) => {
            bad.push((check, err));
            return bad;
        }
    };
    // (v) envelope
    let env_ok = w.get("id").and_then(|x| x.as_str()) == Some(e.id.as_str())
        && w.get("session_id").and_then(|x| x.as_str()) == Some(e.session_id.as_str())
        && w.get("stream_id").and_then(|x| x.as_str()) == Some(e.session_id.as_str())
        && w.get("stream_kind").and_then(|x| x.as_str()) == Some(documented_stream_kind(name))
        && w.get("timestamp_ms").and_then(|x| x.as_u64()) == Some(e.timestamp_ms)
        && w.get("seq").and_then(|x| x.as_u64()) == Some(e.seq)
        && w.get("type").and_then(|x| x.as_str()) == Some(name);
    if !env_ok {
        let env: serde_json::Map<String, Value> = ["id", "session_id", "stream_kind", "stream_id", "timestamp_ms", "seq", "type"]
            .iter()
            .map(|k| (k.to_string(), w.get(*k).cloned().unwrap_or(json!("<absent>"))))
            .collect();
        bad.push(("envelope", format!("envelope of the wire frame is {} for a {name} frame", Value::Object(env))));
    }
    // (iii) nothing lost at write
    let mut ss = Vec::new();
    let mut ns = Vec::new();
    leaves(&w, &mut ss, &mut ns);
    let prefix = token_prefix(&exp.tokens);
    let mut found = std::collections::HashSet::new();
    for s in &ss {
        tokens_in(s, &prefix, &mut found);
    }
    for t in &exp.tokens {
        if !found.contains(t) {
            bad.push(("token_lost_at_write", format!("token {t} not in the wire frame")));
            break;
        }
    }
    let leafset: std::collections::HashSet<&str> = ss.iter().copied().collect();
    for s in &exp.strings {
        if !leafset.contains(s.as_str()) {
            bad.push(("string_altered_at_write", format!("a {}-byte string is not an exact leaf of the wire frame", s.len())));
            break;
        }
    }
    for n in &exp.numbers {
        if !ns.iter().any(|x| *x == n) {
            bad.push(("number_lost_at_write", format!("number {n} not in the wire frame")));
            break;
        }
    }
    // read
    let back: Event = match serde_json::from_str(&text) {
        Ok(b) => b,
        Err(err) => {
            bad.push(("unreadable", format!("wire frame cannot be read back: {err}")));
            return bad;
        }
    };
    // (ii)
    if back.stream_kind() != e.stream_kind() || back.stream_id() != e.stream_id() {
        bad.push(("stream_changed", format!("{:?}/{} became {:?}/{}", e.stream_kind(), e.stream_id(), back.stream_kind(), back.stream_id())));
    }
    if variant_name(&back.kind) != name {
        bad.push(("variant_changed", format!("{name} read back as {}", variant_name(&back.kind))));
    }
    // (i)
    match wire(&back) {
        Ok((_, w2)) => {
            if !frame_eq(&w, &w2) {
                bad.push(("wire_differs_after_reread", first_diff(&w, &w2)));
            }
        }
        Err((_, err)) => bad.push(("reserialize_failed", err)),
    }
    // (iv)
    let dbg = format!("{back:?}");
    let mut found = std::collections::HashSet::new();
    tokens_in(&dbg, &prefix, &mut found);
    for t in &exp.tokens {
        if !found.contains(t) {
            bad.push(("token_lost_at_read", format!("token {t} not in the re-read frame")));
            break;
        }
    }
    if !exp.some_null && dbg != format!("{e:?}") {
        bad.push(("field_altered_at_read", "Debug of the re-read frame differs from the original".to_string()));
    }
    bad
}

fn first_diff(a: &Value, b: &Value) -> String {
    if let (Value::Object(x), Value::Object(y)) = (a, b) {
        for (k, v) in x {
            match y.get(k) {
                None if !v.is_null() => return format!("key {k} disappeared"),
                Some(w) if !strict_eq(v, w) => {
                    let p: String = v.to_string().chars().take(80).collect();
                    let q: String = w.to_string().chars().take(80).collect();
                    return format!("key {k}: {p} -> {q}");
                }
                _ => {}
            }
        }
        for (k, w) in y {
            if !x.contains_key(k) && !w.is_null() {
                return format!("key {k} appeared");
            }
        }
    }
    "values differ".to_string()
}

fn flavor_of(idx: u64) -> Flavor {
    FLAVORS[((idx / N_VARIANTS as u64) % FLAVORS.len() as u64) as usize]
}

/// One generated frame through the serde oracle. Returns the event for the file round trips.
fn frames_case(r: &mut Report, seed: u64, idx: u64) -> Option<Event> {
    let flavor = flavor_of(idx);
    let mut g = Gen::new(crate::prng::Rng::derive(seed, idx).next_u64(), flavor);
    let e = g.event(idx as usize);
    let name = variant_name(&e.kind);
    let exp = Expected { tokens: g.tokens.clone(), strings: g.strings.clone(), numbers: g.numbers.clone(), some_null: g.used_some_null };
    r.eval();
    r.distinct_str(&format!("{name}|{flavor:?}|{}", g.shape));
    r.count("a_tokens_checked", exp.tokens.len() as u64);
    r.count(&format!("a_flavor:{flavor:?}"), 1);
    if g.max_depth > 0 {
        r.count("a_frames_with_deep_nesting", 1);
    }
    let bad = judge_frame(&e, &exp);
    for (check, detail) in &bad {
        r.violation(
            &format!("C03/roundtrip/{check}/{name}"),
            &format!("{name} frame ({flavor:?}): {detail}"),
            json!({"part": "A", "case": idx, "variant": name, "flavor": format!("{flavor:?}"), "detail": detail,
                   "wire_head": serde_json::to_string(&e).unwrap_or_default().chars().take(600).collect::<String>()}),
        );
    }
    if bad.iter().any(|(c, _)| *c == "unreadable" || *c == "serialize_failed" || *c == "wire_unparseable") {
        return None; // would poison the batch files
    }
    Some(e)
}

/// The same frames through EventLog::append → replay / replay_stream and write_snapshot → read_snapshot.
fn files_round_trip(r: &mut Report, batch: &mut Vec<Event>, idx: u64) {
    let dir = crate::fixture::scratch_root().join(format!("c03a-{idx}"));
    let _ = std::fs::remove_dir_all(&dir);
    let _ = std::fs::create_dir_all(&dir);
    // make the batch a valid log: seq 0,1,2,… per stream; frames of one stream kind share a stream id in thirds
    let ids = ["stream-a", "stream-b\u{2028}é", "stream c"];
    let mut next: std::collections::HashMap<(String, String), u64> = std::collections::HashMap::new();
    for (i, e) in batch.iter_mut().enumerate() {
        e.session_id = ids[i % 3].to_string();
        let key = (format!("{:?}", e.stream_kind()), e.session_id.clone());
        let n = next.entry(key).or_insert(0);
        e.seq = *n;
        *n += 1;
    }
    let witness = |what: &str, i: usize, e: &Event| {
        json!({"part": "A", "case": idx, "what": what, "index": i, "variant": variant_name(&e.kind),
               "wire_head": serde_json::to_string(e).unwrap_or_default().chars().take(600).collect::<String>()})
    };
    let log_path = dir.join("events.jsonl");
    'log: {
        let log = match rip_log::EventLog::new(&log_path) {
            Ok(l) => l,
            Err(e) => {
                r.inconclusive(&format!("cannot create scratch log: {e}"));
                break 'log;
            }
        };
        for e in batch.iter() {
            if let Err(err) = log.append(e) {
                r.violation(
                    &format!("C03/log/append_failed/{}", variant_name(&e.kind)),
                    &format!("EventLog::append rejected a frame: {err}"),
                    witness("append", 0, e),
                );
                break 'log;
            }
        }
        // the file is whole lines, one per frame
        let bytes = std::fs::read(&log_path).unwrap_or_default();
        match truth::parse_log(&bytes) {
            Ok(frames) if frames.len() == batch.len() => {}
            Ok(frames) => {
                r.violation(
                    "C03/log/line_count",
                    &format!("{} frames appended, {} lines in the file (a payload broke the line framing)", batch.len(), frames.len()),
                    json!({"part": "A", "case": idx}),
                );
                break 'log;
            }
            Err(e) => {
                r.violation(&format!("C03/log/structure/{}", e.kind), &format!("log of generated frames is not whole JSON lines: {}", e.detail), json!({"part": "A", "case": idx}));
                break 'log;
            }
        }
        match log.replay() {
            Ok(back) => {
                if back.len() != batch.len() {
                    r.violation("C03/log/replay_count", &format!("{} appended, {} replayed", batch.len(), back.len()), json!({"part": "A", "case": idx}));
                    break 'log;
                }
                for (i, (a, b)) in batch.iter().zip(back.iter()).enumerate() {
                    let (wa, wb) = (serde_json::to_value(a).unwrap_or(Value::Null), serde_json::to_value(b).unwrap_or(Value::Null));
                    if !frame_eq(&wa, &wb) || a.stream_kind() != b.stream_kind() || a.stream_id() != b.stream_id() {
                        r.violation(
                            &format!("C03/log/replay_differs/{}", variant_name(&a.kind)),
                            &format!("frame {i} replayed from the log differs from what was appended: {}", first_diff(&wa, &wb)),
                            witness("replay", i, a),
                        );
                        break 'log;
                    }
                }
                r.count("a_frames_through_log", batch.len() as u64);
            }
            Err(err) => {
                r.violation("C03/log/replay_failed", &format!("EventLog::replay failed on generated frames: {err}"), json!({"part": "A", "case": idx}));
                break 'log;
            }
        }
        // stream assignment on read: every stream replays exactly its frames
        for ((_, sid), n) in next.iter() {
            for kind in [rip_kernel::StreamKind::Session, rip_kernel::StreamKind::Task, rip_kernel::StreamKind::Continuity] {
                let expect: Vec<&Event> = batch.iter().filter(|e| e.stream_kind() == kind && e.session_id == *sid).collect();
                if expect.is_empty() {
                    continue;
                }
                let _ = n;
                match log.replay_stream(kind, sid) {
                    Ok(got) => {
                        let same = got.len() == expect.len() && got.iter().zip(expect.iter()).all(|(a, b)| a.id == b.id);
                        if !same {
                            r.violation(
                                &format!("C03/log/replay_stream_assignment/{kind:?}"),
                                &format!("replay_stream({kind:?}, {sid:?}) returned {} frames, {} were appended to it", got.len(), expect.len()),
                                json!({"part": "A", "case": idx}),
                            );
                        }
                        r.count("a_streams_replayed", 1);
                    }
                    Err(err) => {
                        r.violation("C03/log/replay_stream_failed", &format!("replay_stream failed on a valid generated log: {err}"), json!({"part": "A", "case": idx}));
                        break 'log;
                    }
                }
            }
        }
    }
    // snapshot
    let snap_dir = dir.join("snapshots");
    match rip_log::write_snapshot(&snap_dir, "snap", batch) {
        Ok(path) => match rip_log::read_snapshot(&path) {
            Ok(back) => {
                if back.len() != batch.len() {
                    r.violation("C03/snapshot/count", &format!("{} written, {} read", batch.len(), back.len()), json!({"part": "A", "case": idx}));
                } else {
                    for (i, (a, b)) in batch.iter().zip(back.iter()).enumerate() {
                        let (wa, wb) = (serde_json::to_value(a).unwrap_or(Value::Null), serde_json::to_value(b).unwrap_or(Value::Null));
                        if !frame_eq(&wa, &wb) {
                            r.violation(
                                &format!("C03/snapshot/differs/{}", variant_name(&a.kind)),
                                &format!("frame {i} read from the snapshot differs: {}", first_diff(&wa, &wb)),
                                witness("snapshot", i, a),
                            );
                            break;
                        }
                    }
                    r.count("a_frames_through_snapshot", batch.len() as u64);
                }
            }
            Err(err) => r.violation("C03/snapshot/read_failed", &format!("read_snapshot failed on generated frames: {err}"), json!({"part": "A", "case": idx})),
        },
        Err(err) => r.inconclusive(&format!("cannot write scratch snapshot: {err}")),
    }
    let _ = std::fs::remove_dir_all(&dir);
    batch.clear();
}

/// Deterministic inputs: coverage of all variants, compat aliases, nesting at the parser's limit.
fn directed_frames(r: &mut Report) {
    // every variant is produced by the table
    let mut names = std::collections::BTreeSet::new();
    for i in 0..N_VARIANTS {
        let mut g = Gen::new(i as u64, Flavor::Full);
        names.insert(variant_name(&g.kind(i)));
    }
    r.count("a_variants_covered", names.len() as u64);
    if names.len() != N_VARIANTS {
        r.fatal_inconclusive(&format!("generator covers {} of {N_VARIANTS} variants", names.len()));
    }
    // compat aliases as inputs
    let env = |ty: &str, extra: Value| {
        let mut v = json!({"id": "alias-id", "session_id": "alias-s", "timestamp_ms": 5, "seq": 0, "type": ty});
        for (k, x) in extra.as_object().unwrap() {
            v[k] = x.clone();
        }
        v
    };
    let cases = [
        ("session_started+prompt", env("session_started", json!({"prompt": "tkaliasq1z"})), "session_started", Some("tkaliasq1z")),
        ("output+content", env("output", json!({"content": "tkaliasq2z"})), "output_text_delta", Some("tkaliasq2z")),
        ("output+delta", env("output", json!({"delta": "tkaliasq3z"})), "output_text_delta", Some("tkaliasq3z")),
        ("output_text_delta+content", env("output_text_delta", json!({"content": "tkaliasq4z"})), "output_text_delta", Some("tkaliasq4z")),
        ("session_started_without_input", env("session_started", json!({})), "session_started", None),
        ("with_stream_envelope", env("session_ended", json!({"reason": "tkaliasq5z", "stream_kind": "session", "stream_id": "alias-s"})), "session_ended", Some("tkaliasq5z")),
    ];
    for (label, input, want, tok) in cases {
        r.eval();
        r.distinct_str(&format!("alias|{label}"));
        match serde_json::from_value::<Event>(input.clone()) {
            Ok(e) => {
                let dbg = format!("{e:?}");
                let ok = variant_name(&e.kind) == want && tok.map(|t| dbg.contains(t)).unwrap_or(true);
                let stable = wire(&e).ok().and_then(|(t, w)| serde_json::from_str::<Event>(&t).ok().and_then(|b| wire(&b).ok()).map(|(_, w2)| frame_eq(&w, &w2))).unwrap_or(false);
                if !ok || !stable {
                    r.violation(
                        &format!("C03/roundtrip/compat_alias/{label}"),
                        &format!("compat input {label} read as {} (token kept: {}, stable: {stable})", variant_name(&e.kind), tok.map(|t| dbg.contains(t)).unwrap_or(true)),
                        json!({"part": "A", "case": 0, "input": input}),
                    );
                }
            }
            Err(err) => r.violation(
                &format!("C03/roundtrip/compat_alias_unreadable/{label}"),
                &format!("documented compat input {label} cannot be read: {err}"),
                json!({"part": "A", "case": 0, "input": input}),
            ),
        }
    }
    r.count("a_compat_alias_inputs", 6);
    // nesting: payloads as deep as serde_json itself accepts when the payload is parsed on its own
    // (tool args / provider data arrive that way) must survive being embedded in a frame
    // (rip caps provider payload nesting when it builds these frames, so deeper payloads are not frames the
    // provider path can emit; which depths the system does emit, door by door, and whether every place still
    // reads them back is judged end to end by the depth sweep of part B, c03_depth.rs)
    for depth in [16usize, 64, 90, 99, 100] {
        let mut text = String::new();
        for _ in 0..depth {
            text.push('[');
        }
        text.push_str("\"tkdeepq1z\"");
        for _ in 0..depth {
            text.push(']');
        }
        let Ok(payload) = serde_json::from_str::<Value>(&text) else {
            continue; // serde_json itself refuses this depth: such a payload cannot enter the system
        };
        for (which, kind) in [
            ("tool_started.args", rip_kernel::EventKind::ToolStarted { tool_id: "t".into(), name: "n".into(), args: payload.clone(), timeout_ms: None }),
            ("provider_event.data", rip_kernel::EventKind::ProviderEvent {
                provider: "p".into(),
                status: rip_kernel::ProviderEventStatus::Event,
                event_name: None,
                data: Some(payload.clone()),
                raw: None,
                errors: vec![],
                response_errors: vec![],
            }),
        ] {
            let e = Event { id: "deep".into(), session_id: "deep-s".into(), timestamp_ms: 1, seq: 0, kind };
            let exp = Expected { tokens: vec!["tkdeepq1z".into()], strings: vec![], numbers: vec![], some_null: false };
            r.eval();
            r.distinct_str(&format!("deep|{which}|{depth}"));
            for (check, detail) in judge_frame(&e, &exp) {
                r.violation(
                    &format!("C03/roundtrip/{check}/deep_payload/{which}"),
                    &format!("{which} holding a {depth}-deep JSON payload (accepted by serde_json on its own): {detail}"),
                    json!({"part": "A", "case": 0, "depth": depth, "field": which}),
                );
            }
        }
        r.count("a_deep_payload_probes", 2);
    }
}
