//! C20 — surfaces are total, bounded, deterministic folds over the frame stream.
//!
//! Part A (directed, shard 0, every run): the P1 probe (seq 10,12,13 → get_by_seq(11)), selection
//! after out-of-order seq, saturated base_seq, truncation-boundary sweeps (every char width ×
//! every byte offset × small capacities; 8 KiB previews), and a render sweep (every terminal
//! width 1..=130 and height 1..=30 × overlays × a few fixed states).
//! Part B (headless): the REAL `rip run --server <fake authority> --view raw|output|metrics`
//! consumes generated frame sequences as SSE (whole body vs. hostile HTTP chunking + keep-alive
//! comments): no panic, equal stdout, raw view echoes the payloads up to the terminal frame.
//! Part C (exploration): seeded frame sequences over all 38 `EventKind` variants folded into
//! `TuiState` with UI operations interleaved; after every step the bounds, lookup-by-seq,
//! accessor totality and `rip_tui::render` on `TestBackend`s are judged; the same script folded
//! into a second fresh state (and into a mid-way clone) must give the same `Debug` rendering and
//! the same render buffers.

#[path = "fakeauth.rs"]
pub mod fakeauth;

use crate::prng::{fnv, Rng};
use crate::report::{Cfg, Report};
use fakeauth::{sse_body, FakeAuthority, StreamSpec};
use ratatui::backend::TestBackend;
use ratatui::buffer::Buffer;
use ratatui::Terminal;
use rip_kernel::{
    CheckpointAction, CompactionPlannedCutPoint, ContextSelectionCompactionCheckpointV1,
    ContextSelectionResetV1, Event, EventKind, ProviderEventStatus, ToolTaskExecutionMode, ToolTaskStatus,
    ToolTaskStream,
};
use rip_tui::{Overlay, RenderMode, TuiState};
use serde_json::{json, Value};
use std::cell::{Cell, RefCell};
use std::collections::{BTreeSet, HashMap};
use std::panic::{catch_unwind, AssertUnwindSafe};
use std::sync::{Mutex, Once};
use std::time::{Duration, Instant};

/// `DEFAULT_MAX_PREVIEW_BYTES` in rip-tui/src/state.rs (private, not configurable through
/// `TuiState::new`); the only preview bound that IS configured.
const PREVIEW_LIMIT: usize = 8192;
const CLI_LANE: u64 = 1 << 40;
const DEFAULT_RIP_BIN: &str = "/verif/target/repo/release/rip";

// ---------------------------------------------------------------------------------------------
// panic capture

#[derive(Clone, Debug)]
pub struct PanicRec {
    pub msg: String,
    pub file: String,
    pub line: u32,
    /// first frame of a rip crate on the panicking stack (function path), or "?"
    pub site: String,
}

thread_local! {
    static CAPTURE: Cell<bool> = const { Cell::new(false) };
    static LAST_PANIC: RefCell<Option<PanicRec>> = const { RefCell::new(None) };
    /// what the caller is doing (view/overlay being rendered): part of the key under which the
    /// resolved call site of a panic location is cached (one location inside ratatui is reached
    /// from several rip functions; symbolizing every backtrace would cost milliseconds each)
    static CONTEXT: RefCell<String> = const { RefCell::new(String::new()) };
}

fn set_context(s: &str) {
    CONTEXT.with(|c| {
        let mut c = c.borrow_mut();
        if c.as_str() != s {
            c.clear();
            c.push_str(s);
        }
    });
}
static HOOK: Once = Once::new();
static LIGHT: std::sync::atomic::AtomicBool = std::sync::atomic::AtomicBool::new(false);
static SITE_CACHE: Mutex<Option<HashMap<String, String>>> = Mutex::new(None);

fn install_hook() {
    HOOK.call_once(|| {
        let prev = std::panic::take_hook();
        std::panic::set_hook(Box::new(move |info| {
            if !CAPTURE.with(|c| c.get()) {
                prev(info);
                return;
            }
            let msg = if let Some(s) = info.payload().downcast_ref::<&str>() {
                s.to_string()
            } else if let Some(s) = info.payload().downcast_ref::<String>() {
                s.clone()
            } else {
                "<non-string panic payload>".to_string()
            };
            let (file, line, col) = info
                .location()
                .map(|l| (l.file().to_string(), l.line(), l.column()))
                .unwrap_or_default();
            let key = format!("{file}:{line}:{col}|{}", CONTEXT.with(|c| c.borrow().clone()));
            let cached = SITE_CACHE.lock().ok().and_then(|g| g.as_ref().and_then(|m| m.get(&key).cloned()));
            let site = match cached {
                Some(s) => s,
                None => {
                    let bt = std::backtrace::Backtrace::force_capture().to_string();
                    let s = site_from_backtrace(&bt);
                    if let Ok(mut g) = SITE_CACHE.lock() {
                        g.get_or_insert_with(HashMap::new).insert(key, s.clone());
                    }
                    s
                }
            };
            LAST_PANIC.with(|p| *p.borrow_mut() = Some(PanicRec { msg, file, line, site }));
        }));
    });
}

fn site_from_backtrace(bt: &str) -> String {
    for line in bt.lines() {
        let t = line.trim_start();
        let Some((num, sym)) = t.split_once(": ") else { continue };
        if num.is_empty() || !num.bytes().all(|b| b.is_ascii_digit()) {
            continue;
        }
        let sym = sym.trim();
        if sym.starts_with("rip_") || sym.starts_with("<rip_") || sym.starts_with("rip::") {
            // strip the hash suffix
            let s = match sym.rfind("::h") {
                Some(p) if sym.len() - p == 19 => &sym[..p],
                _ => sym,
            };
            return s.to_string();
        }
    }
    "?".to_string()
}

fn guarded<T>(f: impl FnOnce() -> T) -> Result<T, PanicRec> {
    install_hook();
    CAPTURE.with(|c| c.set(true));
    LAST_PANIC.with(|p| *p.borrow_mut() = None);
    let res = catch_unwind(AssertUnwindSafe(f));
    CAPTURE.with(|c| c.set(false));
    match res {
        Ok(v) => Ok(v),
        Err(_) => Err(LAST_PANIC.with(|p| p.borrow_mut().take()).unwrap_or(PanicRec {
            msg: "<panic not recorded>".into(),
            file: String::new(),
            line: 0,
            site: "?".into(),
        })),
    }
}

fn basename(p: &str) -> &str {
    p.rsplit('/').next().unwrap_or(p)
}

fn panic_signature(phase: &str, p: &PanicRec) -> String {
    format!("C20/panic/{phase}/{}@{}", p.site, basename(&p.file))
}

// ---------------------------------------------------------------------------------------------
// EventKind table

pub const N_VARIANTS: usize = 38;

/// Exhaustive on purpose: a new variant in rip-kernel breaks the build of the monitor until the
/// generator table below covers it.
pub fn variant_index(k: &EventKind) -> usize {
    match k {
        EventKind::SessionStarted { .. } => 0,
        EventKind::OutputTextDelta { .. } => 1,
        EventKind::SessionEnded { .. } => 2,
        EventKind::ContinuityCreated { .. } => 3,
        EventKind::ContinuityMessageAppended { .. } => 4,
        EventKind::ContinuityRunSpawned { .. } => 5,
        EventKind::ContinuityContextSelectionDecided { .. } => 6,
        EventKind::ContinuityContextCompiled { .. } => 7,
        EventKind::ContinuityProviderCursorUpdated { .. } => 8,
        EventKind::ContinuityCompactionCheckpointCreated { .. } => 9,
        EventKind::ContinuityCompactionAutoScheduleDecided { .. } => 10,
        EventKind::ContinuityJobSpawned { .. } => 11,
        EventKind::ContinuityJobEnded { .. } => 12,
        EventKind::ContinuityRunEnded { .. } => 13,
        EventKind::ContinuityToolSideEffects { .. } => 14,
        EventKind::ContinuityBranched { .. } => 15,
        EventKind::ContinuityHandoffCreated { .. } => 16,
        EventKind::ToolStarted { .. } => 17,
        EventKind::ToolStdout { .. } => 18,
        EventKind::ToolStderr { .. } => 19,
        EventKind::ToolEnded { .. } => 20,
        EventKind::ToolFailed { .. } => 21,
        EventKind::OpenResponsesRequest { .. } => 22,
        EventKind::OpenResponsesRequestStarted { .. } => 23,
        EventKind::OpenResponsesResponseHeaders { .. } => 24,
        EventKind::OpenResponsesResponseFirstByte { .. } => 25,
        EventKind::ProviderEvent { .. } => 26,
        EventKind::CheckpointCreated { .. } => 27,
        EventKind::CheckpointRewound { .. } => 28,
        EventKind::CheckpointFailed { .. } => 29,
        EventKind::ToolTaskSpawned { .. } => 30,
        EventKind::ToolTaskStatus { .. } => 31,
        EventKind::ToolTaskCancelRequested { .. } => 32,
        EventKind::ToolTaskCancelled { .. } => 33,
        EventKind::ToolTaskOutputDelta { .. } => 34,
        EventKind::ToolTaskStdinWritten { .. } => 35,
        EventKind::ToolTaskResized { .. } => 36,
        EventKind::ToolTaskSignalled { .. } => 37,
    }
}

pub const VARIANT_NAMES: [&str; N_VARIANTS] = [
    "session_started",
    "output_text_delta",
    "session_ended",
    "continuity_created",
    "continuity_message_appended",
    "continuity_run_spawned",
    "continuity_context_selection_decided",
    "continuity_context_compiled",
    "continuity_provider_cursor_updated",
    "continuity_compaction_checkpoint_created",
    "continuity_compaction_auto_schedule_decided",
    "continuity_job_spawned",
    "continuity_job_ended",
    "continuity_run_ended",
    "continuity_tool_side_effects",
    "continuity_branched",
    "continuity_handoff_created",
    "tool_started",
    "tool_stdout",
    "tool_stderr",
    "tool_ended",
    "tool_failed",
    "openresponses_request",
    "openresponses_request_started",
    "openresponses_response_headers",
    "openresponses_response_first_byte",
    "provider_event",
    "checkpoint_created",
    "checkpoint_rewound",
    "checkpoint_failed",
    "tool_task_spawned",
    "tool_task_status",
    "tool_task_cancel_requested",
    "tool_task_cancelled",
    "tool_task_output_delta",
    "tool_task_stdin_written",
    "tool_task_resized",
    "tool_task_signalled",
];

/// Variants that drive the derived state (tools, tasks, jobs, context, output) — picked more often.
const HOT: [usize; 16] = [0, 1, 1, 2, 6, 7, 11, 12, 17, 18, 19, 20, 21, 30, 31, 34];

const U64_SPECIAL: [u64; 12] = [
    0,
    1,
    2,
    10,
    u32::MAX as u64,
    (u32::MAX as u64) + 1,
    i64::MAX as u64,
    (i64::MAX as u64) + 1,
    u64::MAX - 2,
    u64::MAX - 1,
    u64::MAX,
    1_700_000_000_000,
];

const W1: &[char] = &['a', 'b', 'Z', '0', '9', ' ', ' ', '\n', '\t', '"', '\\', '/', '[', ']', '\r', '\u{1}', '\u{1b}', '\u{7f}'];
const W2: &[char] = &['é', 'ß', 'ü', 'Ω', '\u{301}', '\u{7ff}', '\u{80}', '\u{a0}'];
const W3: &[char] = &['中', '文', '→', '⟳', '⚙', '…', '\u{2028}', '\u{2029}', '\u{feff}', '\u{200b}', '\u{ffff}', '\u{800}'];
const W4: &[char] = &['🙂', '🚀', '📄', '𝄞', '\u{10000}', '\u{10ffff}'];

fn ch(rng: &mut Rng, width: usize) -> char {
    match width {
        1 => *rng.pick(W1),
        2 => *rng.pick(W2),
        3 => *rng.pick(W3),
        _ => *rng.pick(W4),
    }
}

/// Random characters of every UTF-8 width until at least `bytes` bytes are produced.
fn mixed(rng: &mut Rng, bytes: usize) -> String {
    let mut s = String::with_capacity(bytes + 4);
    while s.len() < bytes {
        let w = 1 + rng.usize(4);
        s.push(ch(rng, w));
    }
    s
}

/// One character of width `w` repeated behind an ASCII prefix of `offset` bytes, `bytes` long at
/// least: every later byte position ≡ offset (mod w) is a boundary, all others are inside a char.
fn uniform(c: char, offset: usize, bytes: usize) -> String {
    let mut s = "x".repeat(offset);
    while s.len() < bytes {
        s.push(c);
    }
    s
}

fn hex64(rng: &mut Rng) -> String {
    // small pool so that artifact sets overlap between frames
    let n = rng.below(6);
    if n == 5 {
        format!("{:064X}", 0xA11CE000u64 + n)
    } else {
        format!("{:064x}", 0xa11ce000u64 + n)
    }
}

pub struct Gen<'a> {
    pub rng: &'a mut Rng,
    /// configured output bound of the state under test (text is sized around it)
    pub out_hint: usize,
    /// how many multi-KiB strings this case may still produce
    pub big_budget: usize,
}

impl Gen<'_> {
    fn u64v(&mut self) -> u64 {
        match self.rng.below(4) {
            0 => *self.rng.pick(&U64_SPECIAL),
            1 => self.rng.below(100),
            2 => self.rng.next_u64(),
            _ => self.rng.below(1 << 20),
        }
    }

    fn text(&mut self, hint: usize) -> String {
        let hint = hint.min(4096);
        match self.rng.below(12) {
            0 => String::new(),
            1 => [" ", "  \n", "\t", "\n\n"][self.rng.usize(4)].to_string(),
            2..=4 => {
                let n = 1 + self.rng.usize(12);
                mixed(self.rng, n)
            }
            5 | 6 => {
                let off = self.rng.usize(4);
                let target = (hint + self.rng.usize(9)).saturating_sub(4);
                let mut s = "x".repeat(off);
                s.push_str(&mixed(self.rng, target));
                s
            }
            7 | 8 => {
                let w = 1 + self.rng.usize(4);
                let c = ch(self.rng, w);
                let off = self.rng.usize(5);
                uniform(c, off, hint + 1 + self.rng.usize(6))
            }
            9 => {
                let n = (hint / 2 + self.rng.usize(5)).saturating_sub(2);
                mixed(self.rng, n)
            }
            10 => {
                let n = 1 + self.rng.usize(40);
                self.rng.unicode(n)
            }
            _ => {
                let n = self.rng.usize(30);
                self.rng.ascii(n)
            }
        }
    }

    /// chunk for a preview: now and then several KiB so that the 8 KiB preview bound is crossed
    /// with the cut falling at every offset inside multi-byte characters
    fn chunk(&mut self) -> String {
        if self.big_budget > 0 && self.rng.chance(1, 4) {
            self.big_budget -= 1;
            let w = 1 + self.rng.usize(4);
            let off = self.rng.usize(5);
            let bytes = [3000usize, 4090, 4097, 8190, 8193, 9001][self.rng.usize(6)] + self.rng.usize(8);
            if self.rng.bool() {
                let c = ch(self.rng, w);
                uniform(c, off, bytes)
            } else {
                let mut s = "x".repeat(off);
                s.push_str(&mixed(self.rng, bytes));
                s
            }
        } else {
            self.text(64)
        }
    }

    fn name(&mut self) -> String {
        match self.rng.below(8) {
            0 => String::new(),
            1 => "ls".into(),
            2 => "cat".into(),
            3 => "bash".into(),
            4 => "apply_patch".into(),
            5 => {
                let n = 1 + self.rng.usize(10);
                mixed(self.rng, n)
            }
            6 => {
                let n = 20 + self.rng.usize(80);
                mixed(self.rng, n)
            }
            _ => {
                let n = 1 + self.rng.usize(12);
                self.rng.ident(n)
            }
        }
    }

    fn id(&mut self, prefix: &str) -> String {
        match self.rng.below(10) {
            0..=5 => format!("{prefix}{}", 1 + self.rng.below(3)),
            6 => format!("{prefix}-unknown-{}", self.rng.below(4)),
            7 => String::new(),
            8 => {
                let n = 1 + self.rng.usize(6);
                mixed(self.rng, n)
            }
            _ => format!("{prefix}{}", 1 + self.rng.below(40)),
        }
    }

    fn opt<T>(&mut self, f: impl FnOnce(&mut Self) -> T) -> Option<T> {
        if self.rng.bool() {
            Some(f(self))
        } else {
            None
        }
    }

    fn value(&mut self, depth: u32) -> Value {
        match self.rng.below(if depth == 0 { 7 } else { 10 }) {
            0 => Value::Null,
            1 => json!(self.rng.bool()),
            2 => json!(self.u64v()),
            3 => json!(-(self.rng.below(1 << 40) as i64)),
            4 => json!((self.rng.below(1_000_000) as f64) / 7.0),
            5 => json!(self.text(16)),
            6 => json!(hex64(self.rng)),
            7 | 8 => {
                let n = self.rng.usize(4);
                let mut m = serde_json::Map::new();
                for _ in 0..n {
                    let k = if self.rng.chance(1, 4) { mixed(self.rng, 3) } else { self.rng.ident(4) };
                    m.insert(k, self.value(depth - 1));
                }
                Value::Object(m)
            }
            _ => {
                let n = self.rng.usize(4);
                Value::Array((0..n).map(|_| self.value(depth - 1)).collect())
            }
        }
    }

    fn artifacts(&mut self) -> Option<Value> {
        match self.rng.below(5) {
            0 | 1 => None,
            2 => Some(json!({"stdout": hex64(self.rng), "stderr": hex64(self.rng)})),
            3 => Some(self.value(2)),
            _ => Some(json!([hex64(self.rng), "not-an-id", {"nested": [hex64(self.rng)]}])),
        }
    }

    fn strings(&mut self, max: usize) -> Vec<String> {
        let n = self.rng.usize(max + 1);
        (0..n).map(|_| self.text(120)).collect()
    }

    fn task_status(&mut self) -> ToolTaskStatus {
        *self.rng.pick(&[
            ToolTaskStatus::Queued,
            ToolTaskStatus::Running,
            ToolTaskStatus::Exited,
            ToolTaskStatus::Cancelled,
            ToolTaskStatus::Failed,
        ])
    }

    fn ckpt(&mut self) -> ContextSelectionCompactionCheckpointV1 {
        ContextSelectionCompactionCheckpointV1 {
            checkpoint_id: self.id("ck"),
            summary_kind: self.text(16),
            summary_artifact_id: hex64(self.rng),
            to_seq: self.u64v(),
        }
    }

    /// Table-driven: one constructor per variant index (see `variant_index`).
    pub fn kind(&mut self, v: usize) -> EventKind {
        let oh = self.out_hint;
        match v {
            0 => EventKind::SessionStarted { input: self.text(oh) },
            1 => EventKind::OutputTextDelta { delta: self.text(oh) },
            2 => EventKind::SessionEnded { reason: self.text(64) },
            3 => EventKind::ContinuityCreated { workspace: self.text(64), title: self.opt(|g| g.text(64)) },
            4 => EventKind::ContinuityMessageAppended {
                actor_id: self.id("actor"),
                origin: self.text(8),
                content: self.text(64),
            },
            5 => EventKind::ContinuityRunSpawned {
                run_session_id: self.text(16),
                message_id: self.id("m"),
                actor_id: self.opt(|g| g.id("actor")),
                origin: self.opt(|g| g.text(8)),
            },
            6 => EventKind::ContinuityContextSelectionDecided {
                run_session_id: self.text(16),
                message_id: self.id("m"),
                compiler_id: self.text(16),
                compiler_strategy: self.text(32),
                limits: self.value(2),
                compaction_checkpoint: self.opt(|g| g.ckpt()),
                compaction_checkpoints: {
                    let n = self.rng.usize(3);
                    (0..n).map(|_| self.ckpt()).collect()
                },
                resets: {
                    let n = self.rng.usize(3);
                    (0..n)
                        .map(|_| ContextSelectionResetV1 {
                            input: self.text(16),
                            action: self.text(8),
                            reason: self.text(16),
                            ref_: self.opt(|g| g.value(1)),
                        })
                        .collect()
                },
                reason: self.opt(|g| g.value(2)),
                actor_id: self.id("actor"),
                origin: self.text(8),
            },
            7 => EventKind::ContinuityContextCompiled {
                run_session_id: self.text(16),
                bundle_artifact_id: if self.rng.bool() { hex64(self.rng) } else { self.text(16) },
                compiler_id: self.text(16),
                compiler_strategy: self.text(32),
                from_seq: self.u64v(),
                from_message_id: self.opt(|g| g.id("m")),
                actor_id: self.id("actor"),
                origin: self.text(8),
            },
            8 => EventKind::ContinuityProviderCursorUpdated {
                provider: self.text(16),
                endpoint: self.opt(|g| g.text(32)),
                model: self.opt(|g| g.text(16)),
                cursor: match self.rng.below(4) {
                    0 => None,
                    1 => Some(json!({"previous_response_id": self.text(16)})),
                    2 => Some(json!({"previous_response_id": self.u64v()})),
                    _ => Some(self.value(2)),
                },
                action: self.text(16),
                reason: self.opt(|g| g.text(16)),
                run_session_id: self.opt(|g| g.text(16)),
                actor_id: self.id("actor"),
                origin: self.text(8),
            },
            9 => EventKind::ContinuityCompactionCheckpointCreated {
                checkpoint_id: self.text(16),
                cut_rule_id: self.text(32),
                summary_kind: self.text(16),
                summary_artifact_id: if self.rng.bool() { hex64(self.rng) } else { self.text(16) },
                from_seq: self.u64v(),
                from_message_id: self.opt(|g| g.id("m")),
                to_seq: self.u64v(),
                to_message_id: self.opt(|g| g.id("m")),
                actor_id: self.id("actor"),
                origin: self.text(8),
            },
            10 => EventKind::ContinuityCompactionAutoScheduleDecided {
                decision_id: self.id("d"),
                policy_id: self.text(32),
                decision: self.text(32),
                execute: self.rng.bool(),
                stride_messages: self.u64v(),
                max_new_checkpoints: self.rng.next_u64() as u32,
                block_on_inflight: self.rng.bool(),
                message_count: self.u64v(),
                cut_rule_id: self.text(32),
                planned: {
                    let n = self.rng.usize(3);
                    (0..n)
                        .map(|_| CompactionPlannedCutPoint {
                            target_message_ordinal: self.u64v(),
                            to_seq: self.u64v(),
                            to_message_id: self.id("m"),
                        })
                        .collect()
                },
                job_id: self.opt(|g| g.text(16)),
                job_kind: self.opt(|g| g.text(16)),
                reason: self.opt(|g| g.value(2)),
                actor_id: self.id("actor"),
                origin: self.text(8),
            },
            11 => EventKind::ContinuityJobSpawned {
                job_id: self.id("j"),
                job_kind: self.text(32),
                details: self.opt(|g| g.value(2)),
                actor_id: self.id("actor"),
                origin: self.text(8),
            },
            12 => EventKind::ContinuityJobEnded {
                job_id: self.id("j"),
                job_kind: self.text(32),
                status: self.text(32),
                result: self.opt(|g| g.value(2)),
                error: self.opt(|g| g.text(64)),
                actor_id: self.id("actor"),
                origin: self.text(8),
            },
            13 => EventKind::ContinuityRunEnded {
                run_session_id: self.text(16),
                message_id: self.id("m"),
                reason: self.text(32),
                actor_id: self.opt(|g| g.id("actor")),
                origin: self.opt(|g| g.text(8)),
            },
            14 => EventKind::ContinuityToolSideEffects {
                run_session_id: self.text(16),
                tool_id: self.id("t"),
                tool_name: self.text(32),
                affected_paths: self.opt(|g| g.strings(3)),
                checkpoint_id: self.opt(|g| g.id("ck")),
                actor_id: self.id("actor"),
                origin: self.text(8),
            },
            15 => EventKind::ContinuityBranched {
                parent_thread_id: self.text(16),
                parent_seq: self.u64v(),
                parent_message_id: self.opt(|g| g.id("m")),
                actor_id: self.id("actor"),
                origin: self.text(8),
            },
            16 => EventKind::ContinuityHandoffCreated {
                from_thread_id: self.text(16),
                from_seq: self.u64v(),
                from_message_id: self.opt(|g| g.id("m")),
                summary_artifact_id: self.opt(|g| hex64(g.rng)),
                summary_markdown: self.opt(|g| g.text(64)),
                actor_id: self.id("actor"),
                origin: self.text(8),
            },
            17 => EventKind::ToolStarted {
                tool_id: self.id("t"),
                name: self.name(),
                args: self.value(3),
                timeout_ms: self.opt(|g| g.u64v()),
            },
            18 => {
                let chunk = self.chunk();
                EventKind::ToolStdout { tool_id: if chunk.len() > 1000 { "t1".into() } else { self.id("t") }, chunk }
            }
            19 => {
                let chunk = self.chunk();
                EventKind::ToolStderr { tool_id: if chunk.len() > 1000 { "t1".into() } else { self.id("t") }, chunk }
            }
            20 => EventKind::ToolEnded {
                tool_id: self.id("t"),
                exit_code: *self.rng.pick(&[0, 1, -1, 101, i32::MAX, i32::MIN]),
                duration_ms: self.u64v(),
                artifacts: self.artifacts(),
            },
            21 => EventKind::ToolFailed { tool_id: self.id("t"), error: self.text(64) },
            22 => EventKind::OpenResponsesRequest {
                endpoint: self.endpoint(),
                model: self.opt(|g| g.text(40)),
                request_index: self.u64v(),
                kind: self.text(8),
                body_artifact_id: if self.rng.bool() { hex64(self.rng) } else { self.text(16) },
                body_bytes: self.u64v(),
                total_bytes: self.u64v(),
                truncated: self.rng.bool(),
            },
            23 => EventKind::OpenResponsesRequestStarted {
                endpoint: self.endpoint(),
                model: self.opt(|g| g.text(40)),
                request_index: if self.rng.bool() { 0 } else { self.u64v() },
                kind: self.text(8),
            },
            24 => EventKind::OpenResponsesResponseHeaders {
                request_index: if self.rng.bool() { 0 } else { self.u64v() },
                status: *self.rng.pick(&[0u16, 200, 404, 500, u16::MAX]),
                request_id: self.opt(|g| g.text(16)),
                content_type: self.opt(|g| g.text(16)),
            },
            25 => EventKind::OpenResponsesResponseFirstByte {
                request_index: if self.rng.bool() { 0 } else { self.u64v() },
            },
            26 => EventKind::ProviderEvent {
                provider: if self.rng.chance(2, 3) { "openresponses".into() } else { self.text(8) },
                status: match self.rng.below(3) {
                    0 => ProviderEventStatus::Event,
                    1 => ProviderEventStatus::Done,
                    _ => ProviderEventStatus::InvalidJson,
                },
                event_name: self.opt(|g| g.text(32)),
                data: self.opt(|g| g.value(3)),
                raw: self.opt(|g| g.text(120)),
                errors: if self.rng.chance(1, 3) { self.strings(5) } else { Vec::new() },
                response_errors: if self.rng.chance(1, 3) { self.strings(5) } else { Vec::new() },
            },
            27 => EventKind::CheckpointCreated {
                checkpoint_id: self.id("ck"),
                label: self.text(64),
                created_at_ms: self.u64v(),
                files: self.strings(3),
                auto: self.rng.bool(),
                tool_name: self.opt(|g| g.name()),
            },
            28 => EventKind::CheckpointRewound {
                checkpoint_id: self.id("ck"),
                label: self.text(64),
                files: self.strings(3),
            },
            29 => EventKind::CheckpointFailed {
                action: if self.rng.bool() { CheckpointAction::Create } else { CheckpointAction::Rewind },
                error: self.text(64),
            },
            30 => EventKind::ToolTaskSpawned {
                task_id: self.id("k"),
                tool_name: self.name(),
                args: self.value(3),
                cwd: self.opt(|g| g.text(32)),
                title: self.opt(|g| g.name()),
                execution_mode: if self.rng.bool() { ToolTaskExecutionMode::Pipes } else { ToolTaskExecutionMode::Pty },
                origin_session_id: self.opt(|g| g.text(16)),
                artifacts: self.artifacts(),
            },
            31 => EventKind::ToolTaskStatus {
                task_id: self.id("k"),
                status: self.task_status(),
                exit_code: self.opt(|g| *g.rng.pick(&[0, 1, -1, i32::MAX, i32::MIN])),
                started_at_ms: self.opt(|g| g.u64v()),
                ended_at_ms: self.opt(|g| g.u64v()),
                artifacts: self.artifacts(),
                error: self.opt(|g| g.text(80)),
            },
            32 => EventKind::ToolTaskCancelRequested { task_id: self.id("k"), reason: self.text(64) },
            33 => EventKind::ToolTaskCancelled {
                task_id: self.id("k"),
                reason: self.text(64),
                wall_time_ms: self.opt(|g| g.u64v()),
            },
            34 => {
                let chunk = self.chunk();
                EventKind::ToolTaskOutputDelta {
                    task_id: if chunk.len() > 1000 { "k1".into() } else { self.id("k") },
                    stream: *self.rng.pick(&[ToolTaskStream::Stdout, ToolTaskStream::Stderr, ToolTaskStream::Pty]),
                    chunk,
                    artifacts: self.artifacts(),
                }
            }
            35 => EventKind::ToolTaskStdinWritten { task_id: self.id("k"), chunk_b64: self.text(64) },
            36 => EventKind::ToolTaskResized {
                task_id: self.id("k"),
                rows: *self.rng.pick(&[0u16, 1, 24, u16::MAX]),
                cols: *self.rng.pick(&[0u16, 1, 80, u16::MAX]),
            },
            _ => EventKind::ToolTaskSignalled { task_id: self.id("k"), signal: self.text(8) },
        }
    }

    fn endpoint(&mut self) -> String {
        match self.rng.below(4) {
            0 => "https://api.openai.com/v1/responses".into(),
            1 => "https://openrouter.ai/api/v1/responses".into(),
            2 => "http://127.0.0.1:1/v1/responses".into(),
            _ => self.text(32),
        }
    }
}

// ---------------------------------------------------------------------------------------------
// seq / timestamp / stream policies

#[derive(Clone, Copy, Debug, PartialEq, Eq)]
enum SeqPolicy {
    Consecutive,
    Gaps,
    Repeats,
    Decreasing,
    Wild,
    Mixed,
}

#[derive(Clone, Debug)]
struct StreamGen {
    id: String,
    seq: u64,
    policy: SeqPolicy,
    ts: u64,
    ts_policy: u8,
    started: bool,
}

impl StreamGen {
    fn new(rng: &mut Rng, n: usize, force_consecutive: bool) -> StreamGen {
        let policy = if force_consecutive {
            SeqPolicy::Consecutive
        } else {
            *rng.pick(&[
                SeqPolicy::Consecutive,
                SeqPolicy::Gaps,
                SeqPolicy::Gaps,
                SeqPolicy::Repeats,
                SeqPolicy::Decreasing,
                SeqPolicy::Wild,
                SeqPolicy::Mixed,
                SeqPolicy::Mixed,
            ])
        };
        let seq = match rng.below(8) {
            0 | 1 => 0,
            2 => 1,
            3 => 10,
            4 => u64::MAX - rng.below(4),
            5 => (i64::MAX as u64) - 1 + rng.below(4),
            6 => rng.below(1000),
            _ => rng.next_u64(),
        };
        StreamGen {
            id: match rng.below(6) {
                0 => String::new(),
                1 => mixed(rng, 4),
                _ => format!("s{}", n + 1),
            },
            seq,
            policy,
            ts: match rng.below(4) {
                0 => 0,
                1 => u64::MAX - rng.below(3),
                2 => 1_700_000_000_000 + rng.below(1 << 20),
                _ => rng.next_u64(),
            },
            ts_policy: rng.below(4) as u8,
            started: false,
        }
    }

    fn next_seq(&mut self, rng: &mut Rng) -> u64 {
        if !self.started {
            self.started = true;
            return self.seq;
        }
        let p = if self.policy == SeqPolicy::Mixed {
            *rng.pick(&[
                SeqPolicy::Consecutive,
                SeqPolicy::Consecutive,
                SeqPolicy::Gaps,
                SeqPolicy::Repeats,
                SeqPolicy::Decreasing,
                SeqPolicy::Wild,
            ])
        } else {
            self.policy
        };
        self.seq = match p {
            SeqPolicy::Consecutive | SeqPolicy::Mixed => self.seq.wrapping_add(1),
            SeqPolicy::Gaps => self.seq.wrapping_add(if rng.chance(1, 3) { 2 + rng.below(4) } else { 1 }),
            SeqPolicy::Repeats => {
                if rng.chance(1, 3) {
                    self.seq
                } else {
                    self.seq.wrapping_add(1)
                }
            }
            SeqPolicy::Decreasing => self.seq.wrapping_sub(1 + rng.below(3)),
            SeqPolicy::Wild => {
                if rng.bool() {
                    *rng.pick(&U64_SPECIAL)
                } else {
                    rng.next_u64()
                }
            }
        };
        self.seq
    }

    fn next_ts(&mut self, rng: &mut Rng) -> u64 {
        self.ts = match self.ts_policy {
            0 => self.ts.saturating_add(rng.below(50)),
            1 => self.ts.wrapping_sub(rng.below(5000)),
            2 => {
                if rng.chance(1, 4) {
                    *rng.pick(&U64_SPECIAL)
                } else {
                    self.ts.wrapping_add(rng.below(10_000))
                }
            }
            _ => rng.next_u64(),
        };
        self.ts
    }
}

// ---------------------------------------------------------------------------------------------
// scripts

#[derive(Clone, Debug)]
enum UiOp {
    ToggleView,
    ToggleTheme,
    ToggleActivity,
    ToggleTasks,
    OpenDetail,
    CloseOverlay,
    ToggleFollow,
    Move(i64),
    SelectSeq(Option<u64>),
    PinActivity(bool),
    Now(u64),
    Status(String),
    SetOverlay(Overlay),
}

#[derive(Clone, Debug)]
enum Step {
    Frame(Event),
    Ui(UiOp),
}

fn apply_ui(state: &mut TuiState, op: &UiOp) {
    match op {
        UiOp::ToggleView => state.toggle_output_view(),
        UiOp::ToggleTheme => state.toggle_theme(),
        UiOp::ToggleActivity => state.toggle_activity_overlay(),
        UiOp::ToggleTasks => state.toggle_tasks_overlay(),
        UiOp::OpenDetail => state.open_selected_detail(),
        UiOp::CloseOverlay => state.close_overlay(),
        UiOp::ToggleFollow => state.auto_follow = !state.auto_follow,
        UiOp::Move(delta) => {
            // rip-cli/src/fullscreen.rs move_selected (private there), re-stated
            state.auto_follow = false;
            match state.selected_seq {
                None => state.selected_seq = state.frames.last_seq(),
                Some(selected) => {
                    let next = if *delta < 0 {
                        selected.saturating_sub(delta.unsigned_abs())
                    } else {
                        selected.saturating_add(*delta as u64)
                    };
                    let clamped = next
                        .max(state.frames.first_seq().unwrap_or(next))
                        .min(state.frames.last_seq().unwrap_or(next));
                    state.selected_seq = Some(clamped);
                }
            }
        }
        UiOp::SelectSeq(s) => {
            state.auto_follow = false;
            state.selected_seq = *s;
        }
        UiOp::PinActivity(b) => state.activity_pinned = *b,
        UiOp::Now(ms) => state.set_now_ms(*ms),
        UiOp::Status(s) => state.set_status_message(s.clone()),
        UiOp::SetOverlay(o) => state.overlay = o.clone(),
    }
}

struct Case {
    max_frames: usize,
    max_output: usize,
    steps: Vec<Step>,
    input: String,
    extra_sizes: Vec<(u16, u16)>,
    consecutive_only: bool,
    streams: usize,
}

const MAX_FRAMES_POOL: [usize; 9] = [0, 1, 2, 3, 4, 10, 10, 64, 10_000];
const MAX_OUTPUT_POOL: [usize; 14] = [0, 1, 2, 3, 4, 5, 7, 8, 16, 64, 64, 256, 1024, 1_000_000];
const SIZES: [(u16, u16); 8] = [(20, 5), (60, 20), (80, 24), (120, 40), (1, 1), (13, 10), (100, 30), (40, 4)];

fn gen_case(cfg: &Cfg, rng: &mut Rng) -> Case {
    let max_frames = *rng.pick(&MAX_FRAMES_POOL);
    let max_output = *rng.pick(&MAX_OUTPUT_POOL);
    // one case in six is a well-ordered single stream: the class on which lookups must be exact
    let consecutive_only = rng.chance(1, 6);
    let n_streams = if consecutive_only { 1 } else { 1 + rng.usize(3) };
    let mut streams: Vec<StreamGen> = (0..n_streams).map(|i| StreamGen::new(rng, i, consecutive_only)).collect();
    let n_steps = match rng.below(4) {
        0 => 1 + rng.usize(6),
        1 | 2 => 5 + rng.usize(cfg.tier.pick(40, 80)),
        _ => 20 + rng.usize(cfg.tier.pick(100, 300)),
    };
    let out_hint = if max_output > 4096 { 64 } else { max_output };
    let big_budget = if rng.chance(1, 3) { 2 + rng.usize(4) } else { 0 };
    // under Miri multi-KiB strings cost minutes (char-wise generation and Debug escaping)
    let light = LIGHT.load(std::sync::atomic::Ordering::Relaxed);
    let big_budget = if light { 0 } else { big_budget };
    let out_hint = if light { out_hint.min(40) } else { out_hint };
    let ui_rate = *rng.pick(&[0u64, 5, 15, 30]);
    let uniform_variants = rng.bool();
    let mut seen: Vec<u64> = Vec::new();
    let mut steps = Vec::with_capacity(n_steps);
    let mut g_big = big_budget;
    if big_budget > 0 {
        // the ids the multi-KiB chunks are addressed to exist, so the preview bound is really reached
        for k in [
            EventKind::ToolStarted { tool_id: "t1".into(), name: "cat".into(), args: json!({}), timeout_ms: None },
            EventKind::ToolTaskSpawned {
                task_id: "k1".into(),
                tool_name: "bash".into(),
                args: json!({}),
                cwd: None,
                title: None,
                execution_mode: ToolTaskExecutionMode::Pipes,
                origin_session_id: None,
                artifacts: None,
            },
        ] {
            let seq = streams[0].next_seq(rng);
            let ts = streams[0].next_ts(rng);
            seen.push(seq);
            steps.push(Step::Frame(Event { id: format!("e{}", steps.len()), session_id: streams[0].id.clone(), timestamp_ms: ts, seq, kind: k }));
        }
    }
    for _ in 0..n_steps {
        if rng.below(100) < ui_rate {
            let op = match rng.below(16) {
                0 => UiOp::ToggleView,
                1 => UiOp::ToggleTheme,
                2 => UiOp::ToggleActivity,
                3 => UiOp::ToggleTasks,
                4 | 5 => UiOp::OpenDetail,
                6 => UiOp::CloseOverlay,
                7 => UiOp::ToggleFollow,
                8 => UiOp::Move(if rng.bool() { -1 } else { 1 }),
                9 => UiOp::SelectSeq(if seen.is_empty() || rng.chance(1, 8) {
                    None
                } else {
                    let s = *rng.pick(&seen);
                    Some(match rng.below(3) {
                        0 => s,
                        1 => s.wrapping_add(1),
                        _ => s.wrapping_sub(1),
                    })
                }),
                10 => UiOp::PinActivity(rng.bool()),
                11 => UiOp::Now(*rng.pick(&U64_SPECIAL)),
                12 => UiOp::Status(mixed(rng, 10)),
                13 => UiOp::SetOverlay(Overlay::StallDetail),
                14 => UiOp::SetOverlay(if rng.bool() {
                    Overlay::ToolDetail { tool_id: format!("t{}", 1 + rng.below(3)) }
                } else {
                    Overlay::TaskDetail { task_id: format!("k{}", 1 + rng.below(3)) }
                }),
                _ => UiOp::SetOverlay(Overlay::ErrorDetail {
                    seq: if seen.is_empty() { 0 } else { *rng.pick(&seen) },
                }),
            };
            steps.push(Step::Ui(op));
            continue;
        }
        let v = if uniform_variants || rng.bool() { rng.usize(N_VARIANTS) } else { *rng.pick(&HOT) };
        let si = rng.usize(streams.len());
        let seq = streams[si].next_seq(rng);
        let ts = streams[si].next_ts(rng);
        let session_id = streams[si].id.clone();
        let kind = {
            let mut g = Gen { rng, out_hint, big_budget: g_big };
            let k = g.kind(v);
            g_big = g.big_budget;
            k
        };
        seen.push(seq);
        steps.push(Step::Frame(Event {
            id: format!("e{}", steps.len()),
            session_id,
            timestamp_ms: ts,
            seq,
            kind,
        }));
    }
    let extra_sizes = vec![
        (1 + rng.below(140) as u16, 1 + rng.below(50) as u16),
        (8 + rng.below(100) as u16, 1 + rng.below(12) as u16),
    ];
    Case {
        max_frames,
        max_output,
        steps,
        input: if rng.bool() { String::new() } else { mixed(rng, 12) },
        extra_sizes,
        consecutive_only,
        streams: n_streams,
    }
}

// ---------------------------------------------------------------------------------------------
// oracle

#[derive(Clone, Debug)]
struct Finding {
    signature: String,
    what: String,
    detail: Value,
}

#[derive(Default)]
struct Agg {
    frames: u64,
    ui_ops: u64,
    evictions: u64,
    output_truncations: u64,
    preview_truncations: u64,
    lookups: u64,
    lookups_some: u64,
    lookups_wrong: u64,
    selected_checked: u64,
    renders: u64,
    render_panics: u64,
    buffers_compared: u64,
    debug_compared: u64,
    debug_bytes: u64,
    wire_roundtrips: u64,
    accessor_calls: u64,
    terminal_without_start: u64,
    unknown_id_frames: u64,
    nonconsecutive_cases: u64,
    consecutive_cases: u64,
    variants: Vec<u64>,
    max_tools: usize,
    max_tasks: usize,
    max_jobs: usize,
    max_artifacts: usize,
    max_frames_len: usize,
    max_output_len: usize,
    max_preview_len: usize,
}

struct Tracker {
    /// every push so far had seq == previous + 1 (no wrap): the class where `seq - base_seq`
    /// addressing is exact by construction
    consecutive: bool,
    last_pushed: Option<u64>,
    recent: Vec<u64>,
    seen: BTreeSet<u64>,
}

impl Tracker {
    fn new() -> Tracker {
        Tracker { consecutive: true, last_pushed: None, recent: Vec::new(), seen: BTreeSet::new() }
    }
    fn pushed(&mut self, seq: u64) {
        if let Some(prev) = self.last_pushed {
            if prev.checked_add(1) != Some(seq) {
                self.consecutive = false;
            }
        }
        self.last_pushed = Some(seq);
        if !self.recent.contains(&seq) {
            if self.recent.len() >= 8 {
                self.recent.remove(0);
            }
            self.recent.push(seq);
        }
        if self.seen.len() < 400 {
            self.seen.insert(seq);
        }
    }
    fn class(&self) -> &'static str {
        if self.consecutive {
            "consecutive_seq"
        } else {
            "nonconsecutive_seq"
        }
    }
}

fn window_seqs(state: &TuiState) -> Vec<u64> {
    state.frames.iter().map(|e| e.seq).collect()
}

/// get_by_seq / index_of_seq / selected_event: "that frame or nothing, never a different one".
fn check_lookups(state: &TuiState, probes: &[u64], tr: &Tracker, agg: &mut Agg) -> Vec<Finding> {
    let mut out = Vec::new();
    for &q in probes {
        agg.lookups += 1;
        if let Some(ev) = state.frames.get_by_seq(q) {
            agg.lookups_some += 1;
            if ev.seq != q {
                agg.lookups_wrong += 1;
                out.push(Finding {
                    signature: format!("C20/lookup_by_seq_returns_other_frame/FrameStore::get_by_seq/{}", tr.class()),
                    what: format!(
                        "FrameStore::get_by_seq({q}) returned the frame with seq {} (window seqs {:?})",
                        ev.seq,
                        head(&window_seqs(state), 12)
                    ),
                    detail: json!({"asked": q.to_string(), "got": ev.seq.to_string(), "window": head(&window_seqs(state), 32)}),
                });
            }
        }
        if let Some(idx) = state.frames.index_of_seq(q) {
            match state.frames.iter().nth(idx) {
                Some(ev) if ev.seq == q => {}
                Some(ev) => {
                    out.push(Finding {
                        signature: format!("C20/lookup_by_seq_returns_other_frame/FrameStore::index_of_seq/{}", tr.class()),
                        what: format!(
                            "FrameStore::index_of_seq({q}) = {idx}, but the frame at that index has seq {}",
                            ev.seq
                        ),
                        detail: json!({"asked": q.to_string(), "index": idx, "got": ev.seq.to_string()}),
                    });
                }
                None => {
                    out.push(Finding {
                        signature: "C20/lookup_by_seq_index_out_of_window/FrameStore::index_of_seq".into(),
                        what: format!("FrameStore::index_of_seq({q}) = {idx} but the window holds {} frames", state.frames.len()),
                        detail: json!({"asked": q.to_string(), "index": idx, "len": state.frames.len()}),
                    });
                }
            }
        }
    }
    agg.selected_checked += 1;
    if let (Some(sel), Some(ev)) = (state.selected_seq, state.selected_event()) {
        if ev.seq != sel {
            out.push(Finding {
                signature: format!("C20/lookup_by_seq_returns_other_frame/TuiState::selected_event/{}", tr.class()),
                what: format!("selected_seq = {sel} but selected_event() is the frame with seq {}", ev.seq),
                detail: json!({"selected_seq": sel.to_string(), "got": ev.seq.to_string(), "window": head(&window_seqs(state), 32)}),
            });
        }
    }
    out
}

fn head(v: &[u64], n: usize) -> Vec<String> {
    v.iter().take(n).map(|x| x.to_string()).collect()
}

fn preview_lens(state: &TuiState) -> Vec<(&'static str, usize)> {
    let mut out = Vec::new();
    for t in state.tools.values() {
        out.push(("tool_stdout_preview", t.stdout_preview.len()));
        out.push(("tool_stderr_preview", t.stderr_preview.len()));
    }
    for t in state.tasks.values() {
        out.push(("task_stdout_preview", t.stdout_preview.len()));
        out.push(("task_stderr_preview", t.stderr_preview.len()));
        out.push(("task_pty_preview", t.pty_preview.len()));
    }
    out
}

fn check_bounds(state: &TuiState, max_frames: usize, max_output: usize, agg: &mut Agg) -> Vec<Finding> {
    let mut out = Vec::new();
    let fl = state.frames.len();
    agg.max_frames_len = agg.max_frames_len.max(fl);
    if fl > max_frames.max(1) {
        out.push(Finding {
            signature: "C20/bound_exceeded/frames_len".into(),
            what: format!("frames.len() = {fl} > max(1, max_frames = {max_frames})"),
            detail: json!({"len": fl, "max_frames": max_frames}),
        });
    }
    let ol = state.output_text.len();
    if max_output < 1_000_000 {
        agg.max_output_len = agg.max_output_len.max(ol);
    }
    if ol > max_output.max(1) {
        out.push(Finding {
            signature: "C20/bound_exceeded/output_text".into(),
            what: format!("output_text.len() = {ol} > max(1, max_output_bytes = {max_output})"),
            detail: json!({"len": ol, "max_output_bytes": max_output}),
        });
    }
    for (name, len) in preview_lens(state) {
        agg.max_preview_len = agg.max_preview_len.max(len);
        if len > PREVIEW_LIMIT {
            out.push(Finding {
                signature: format!("C20/bound_exceeded/{name}"),
                what: format!("{name}.len() = {len} > {PREVIEW_LIMIT}"),
                detail: json!({"len": len, "limit": PREVIEW_LIMIT}),
            });
        }
    }
    agg.max_tools = agg.max_tools.max(state.tools.len());
    agg.max_tasks = agg.max_tasks.max(state.tasks.len());
    agg.max_jobs = agg.max_jobs.max(state.jobs.len());
    agg.max_artifacts = agg.max_artifacts.max(state.artifacts.len());
    out
}

fn check_accessors(state: &TuiState, agg: &mut Agg) -> Vec<Finding> {
    agg.accessor_calls += 1;
    set_context("accessor");
    match guarded(|| {
        let _ = state.ttft_ms();
        let _ = state.e2e_ms();
        let _ = state.openresponses_headers_ms();
        let _ = state.openresponses_first_byte_ms();
        let _ = state.openresponses_first_provider_event_ms();
        let _ = state.is_stalled(5_000);
        let _ = state.is_stalled(0);
        let _ = state.has_error();
        let _ = state.running_tool_ids().count();
        let _ = state.running_task_ids().count();
        let _ = state.running_job_ids().count();
        let _ = state.frames.first_seq();
        let _ = state.frames.last_seq();
        let _ = state.frames.is_empty();
    }) {
        Ok(()) => Vec::new(),
        Err(p) => vec![Finding {
            signature: panic_signature("accessor", &p),
            what: format!("a TuiState accessor panicked: {} ({}:{})", clip(&p.msg, 160), p.file, p.line),
            detail: json!({"panic": p.msg, "file": p.file, "line": p.line, "site": p.site}),
        }],
    }
}

fn clip(s: &str, n: usize) -> String {
    let mut out: String = s.chars().take(n).collect();
    if out.len() < s.len() {
        out.push('…');
    }
    out
}

fn render_buf(state: &TuiState, mode: RenderMode, input: &str, w: u16, h: u16) -> Result<Buffer, PanicRec> {
    set_context(&format!("render/{}/{}/{}", state.output_view.as_str(), overlay_name(&state.overlay), state.activity_pinned && w >= 100));
    guarded(|| {
        let mut terminal = Terminal::new(TestBackend::new(w, h)).expect("test terminal");
        terminal.draw(|f| rip_tui::render(f, state, mode, input)).expect("draw on TestBackend");
        terminal.backend().buffer().clone()
    })
}

fn overlay_name(o: &Overlay) -> &'static str {
    match o {
        Overlay::None => "none",
        Overlay::Activity => "activity",
        Overlay::ToolDetail { .. } => "tool_detail",
        Overlay::TaskList => "task_list",
        Overlay::TaskDetail { .. } => "task_detail",
        Overlay::ErrorDetail { .. } => "error_detail",
        Overlay::StallDetail => "stall_detail",
    }
}

fn render_finding(state: &TuiState, mode: RenderMode, w: u16, h: u16, p: &PanicRec) -> Finding {
    Finding {
        signature: panic_signature("render", p),
        what: format!(
            "rip_tui::render panicked on a {w}x{h} terminal (view {}, overlay {}, mode {:?}): {} ({}:{})",
            state.output_view.as_str(),
            overlay_name(&state.overlay),
            mode,
            clip(&p.msg, 160),
            p.file,
            p.line
        ),
        detail: json!({"panic": p.msg, "file": p.file, "line": p.line, "site": p.site, "width": w, "height": h,
                       "view": state.output_view.as_str(), "overlay": overlay_name(&state.overlay)}),
    }
}

fn first_diff(a: &str, b: &str) -> Value {
    let pos = a.bytes().zip(b.bytes()).position(|(x, y)| x != y).unwrap_or(a.len().min(b.len()));
    let ex = |s: &str| {
        let mut lo = pos.saturating_sub(60);
        while lo > 0 && !s.is_char_boundary(lo) {
            lo -= 1;
        }
        let mut hi = (pos + 60).min(s.len());
        while hi < s.len() && !s.is_char_boundary(hi) {
            hi += 1;
        }
        s.get(lo..hi).unwrap_or("").to_string()
    };
    json!({"first_difference_at_byte": pos, "a": ex(a), "b": ex(b), "len_a": a.len(), "len_b": b.len()})
}

/// The frame parser the SSE consumers (headless renderer, fullscreen TUI) run on every payload.
fn check_wire(ev: &Event, agg: &mut Agg) -> (Option<String>, Vec<Finding>) {
    agg.wire_roundtrips += 1;
    let payload = match serde_json::to_string(ev) {
        Ok(p) => p,
        Err(e) => {
            return (
                None,
                vec![Finding {
                    signature: format!("C20/wellformed_frame_not_serializable/{}", VARIANT_NAMES[variant_index(&ev.kind)]),
                    what: format!("serde_json::to_string(&Event) failed: {e}"),
                    detail: json!({"error": e.to_string()}),
                }],
            )
        }
    };
    match serde_json::from_str::<Event>(&payload) {
        Ok(back) => {
            let mut f = Vec::new();
            if back.seq != ev.seq || back.timestamp_ms != ev.timestamp_ms || variant_index(&back.kind) != variant_index(&ev.kind) {
                f.push(Finding {
                    signature: format!("C20/frame_parser_changes_frame/{}", VARIANT_NAMES[variant_index(&ev.kind)]),
                    what: "frame parsed back from its own wire form has a different seq / timestamp / type".into(),
                    detail: json!({"payload": clip(&payload, 400)}),
                });
            }
            (Some(payload), f)
        }
        Err(e) => (
            Some(payload.clone()),
            vec![Finding {
                signature: format!("C20/wellformed_frame_rejected_by_frame_parser/{}", VARIANT_NAMES[variant_index(&ev.kind)]),
                what: format!("a frame serialized by rip_kernel::Event is rejected by the frame parser of the surfaces: {e}"),
                detail: json!({"payload": clip(&payload, 400), "error": e.to_string()}),
            }],
        ),
    }
}

fn unknown_or_terminal_without_start(state: &TuiState, ev: &Event, agg: &mut Agg) {
    match &ev.kind {
        EventKind::ToolStdout { tool_id, .. }
        | EventKind::ToolStderr { tool_id, .. }
        | EventKind::ToolEnded { tool_id, .. }
        | EventKind::ToolFailed { tool_id, .. } => {
            if !state.tools.contains_key(tool_id) {
                agg.unknown_id_frames += 1;
                if matches!(ev.kind, EventKind::ToolEnded { .. } | EventKind::ToolFailed { .. }) {
                    agg.terminal_without_start += 1;
                }
            }
        }
        EventKind::ToolTaskStatus { task_id, .. } | EventKind::ToolTaskOutputDelta { task_id, .. } | EventKind::ToolTaskCancelled { task_id, .. } => {
            if !state.tasks.contains_key(task_id) {
                agg.unknown_id_frames += 1;
                if !matches!(ev.kind, EventKind::ToolTaskOutputDelta { .. }) {
                    agg.terminal_without_start += 1;
                }
            }
        }
        EventKind::SessionEnded { .. } => {
            if state.start_ms.is_none() {
                agg.terminal_without_start += 1;
            }
        }
        EventKind::ContinuityJobEnded { job_id, .. } => {
            if !state.jobs.contains_key(job_id) {
                agg.terminal_without_start += 1;
            }
        }
        _ => {}
    }
}

struct FoldOutcome {
    findings: Vec<(usize, Finding)>,
    shape: u64,
    nontrivial: bool,
    frames: usize,
    aborted: bool,
}

/// Fold `case` into a fresh state with every check after every step, then into a second fresh
/// state and into a clone taken mid-way, and compare.
fn run_fold(case: &Case, rng: &mut Rng, agg: &mut Agg, render_in_steps: bool) -> FoldOutcome {
    run_fold_with(case, rng, agg, render_in_steps, usize::MAX)
}

/// `end_sizes`: how many of the terminal sizes are rendered at the end of the case (Miri: 0 or 1).
fn run_fold_with(case: &Case, rng: &mut Rng, agg: &mut Agg, render_in_steps: bool, end_sizes: usize) -> FoldOutcome {
    let mut findings: Vec<(usize, Finding)> = Vec::new();
    let mut a = TuiState::new(case.max_frames, case.max_output);
    let cap = case.max_frames.max(1);
    let mut tr = Tracker::new();
    let mut shape: Vec<u8> = Vec::with_capacity(case.steps.len() * 4 + 8);
    shape.extend_from_slice(&(case.max_frames as u32).to_le_bytes());
    shape.extend_from_slice(&(case.max_output as u32).to_le_bytes());
    let mut interesting = false;
    let clone_at = rng.usize(case.steps.len().max(1));
    let mut clone_c: Option<TuiState> = None;
    let mut n_frames = 0usize;
    let mut aborted = false;
    let all_sizes: Vec<(u16, u16)> = SIZES.iter().copied().chain(case.extra_sizes.iter().copied()).collect();
    let mut prev_stream: Option<String> = None;

    for (i, step) in case.steps.iter().enumerate() {
        if i == clone_at {
            clone_c = Some(a.clone());
        }
        match step {
            Step::Ui(op) => {
                agg.ui_ops += 1;
                shape.push(0xf0);
                set_context("ui_op");
                if let Err(p) = guarded(|| apply_ui(&mut a, op)) {
                    findings.push((
                        i,
                        Finding {
                            signature: panic_signature("ui_op", &p),
                            what: format!("a TuiState UI operation panicked: {}", clip(&p.msg, 160)),
                            detail: json!({"panic": p.msg, "file": p.file, "line": p.line, "site": p.site, "op": format!("{op:?}")}),
                        },
                    ));
                    aborted = true;
                    break;
                }
                findings.extend(check_lookups(&a, &[], &tr, agg).into_iter().map(|f| (i, f)));
            }
            Step::Frame(ev) => {
                n_frames += 1;
                agg.frames += 1;
                let vi = variant_index(&ev.kind);
                agg.variants[vi] += 1;
                let (_, wf) = check_wire(ev, agg);
                findings.extend(wf.into_iter().map(|f| (i, f)));
                unknown_or_terminal_without_start(&a, ev, agg);
                // shape: variant, relation of seq to the previous push, stream switch
                let rel = match tr.last_pushed {
                    None => 0u8,
                    Some(p) if p.checked_add(1) == Some(ev.seq) => 1,
                    Some(p) if ev.seq == p => 2,
                    Some(p) if ev.seq > p => 3,
                    Some(_) => 4,
                };
                let sw = prev_stream.as_deref() != Some(ev.session_id.as_str());
                prev_stream = Some(ev.session_id.clone());
                shape.push(vi as u8);
                shape.push(rel | if sw { 0x10 } else { 0 } | if ev.seq >= u64::MAX - 2 { 0x20 } else { 0 });

                let len_before = a.frames.len();
                let out_before = a.output_text.len();
                let prev_before: usize = preview_lens(&a).iter().map(|(_, l)| *l).sum();
                let resets_preview = matches!(ev.kind, EventKind::ToolStarted { .. } | EventKind::ToolTaskSpawned { .. });
                let seq = ev.seq;
                let evc = ev.clone();
                set_context("update");
                if let Err(p) = guarded(|| a.update(evc)) {
                    findings.push((
                        i,
                        Finding {
                            signature: panic_signature("update", &p),
                            what: format!(
                                "TuiState::update panicked on a {} frame: {} ({}:{})",
                                VARIANT_NAMES[vi],
                                clip(&p.msg, 160),
                                p.file,
                                p.line
                            ),
                            detail: json!({"panic": p.msg, "file": p.file, "line": p.line, "site": p.site, "variant": VARIANT_NAMES[vi],
                                           "seq": seq.to_string(), "timestamp_ms": ev.timestamp_ms.to_string()}),
                        },
                    ));
                    aborted = true;
                    break;
                }
                tr.pushed(seq);
                if len_before >= cap {
                    agg.evictions += 1;
                    interesting = true;
                }
                if a.output_text.len() < out_before || (a.output_truncated && a.output_text.len() == out_before && out_before > 0 && vi <= 1) {
                    agg.output_truncations += 1;
                    interesting = true;
                }
                if !resets_preview {
                    let prev_after: usize = preview_lens(&a).iter().map(|(_, l)| *l).sum();
                    if prev_after < prev_before {
                        agg.preview_truncations += 1;
                        interesting = true;
                    }
                }
                if !tr.consecutive {
                    interesting = true;
                }
                findings.extend(check_bounds(&a, case.max_frames, case.max_output, agg).into_iter().map(|f| (i, f)));
                let mut probes: Vec<u64> = vec![seq, seq.wrapping_sub(1), seq.wrapping_add(1), 0, u64::MAX];
                for s in &tr.recent {
                    probes.push(*s);
                    probes.push(s.wrapping_add(1));
                }
                findings.extend(check_lookups(&a, &probes, &tr, agg).into_iter().map(|f| (i, f)));
            }
        }
        findings.extend(check_accessors(&a, agg).into_iter().map(|f| (i, f)));
        if render_in_steps {
            let (w, h) = all_sizes[i % all_sizes.len()];
            let mode = if i % 2 == 0 { RenderMode::Json } else { RenderMode::Decoded };
            agg.renders += 1;
            if let Err(p) = render_buf(&a, mode, &case.input, w, h) {
                agg.render_panics += 1;
                findings.push((i, render_finding(&a, mode, w, h, &p)));
            }
        }
        if findings.len() > 64 {
            // enough evidence from this case; the per-signature counters stay meaningful
            findings.truncate(64);
        }
    }

    if !aborted {
        let last = case.steps.len().saturating_sub(1);
        // all seqs ever seen and their neighbours
        let mut probes: Vec<u64> = Vec::with_capacity(tr.seen.len() * 3);
        for s in &tr.seen {
            probes.push(*s);
            probes.push(s.wrapping_add(1));
            probes.push(s.wrapping_sub(1));
        }
        findings.extend(check_lookups(&a, &probes, &tr, agg).into_iter().map(|f| (last, f)));

        // determinism: second fresh state, and the clone taken mid-way
        let mut b = TuiState::new(case.max_frames, case.max_output);
        let sleepy = rng.chance(1, 64);
        set_context("second_fold");
        let rb = guarded(|| {
            for (i, step) in case.steps.iter().enumerate() {
                if sleepy && i == case.steps.len() / 2 {
                    std::thread::sleep(Duration::from_millis(3));
                }
                match step {
                    Step::Ui(op) => apply_ui(&mut b, op),
                    Step::Frame(ev) => b.update(ev.clone()),
                }
            }
        });
        let da = format!("{a:?}");
        if rb.is_ok() {
            let db = format!("{b:?}");
            agg.debug_compared += 1;
            agg.debug_bytes += da.len() as u64;
            if da != db {
                findings.push((
                    last,
                    Finding {
                        signature: "C20/nondeterministic/state_debug".into(),
                        what: "the same script folded into two fresh TuiStates gives different Debug renderings".into(),
                        detail: first_diff(&da, &db),
                    },
                ));
            }
        } else {
            findings.push((
                last,
                Finding {
                    signature: "C20/nondeterministic/second_fold_panicked".into(),
                    what: "the second fold of the same script panicked although the first did not".into(),
                    detail: json!({}),
                },
            ));
        }
        if let Some(mut c) = clone_c {
            let rc = guarded(|| {
                for step in &case.steps[clone_at..] {
                    match step {
                        Step::Ui(op) => apply_ui(&mut c, op),
                        Step::Frame(ev) => c.update(ev.clone()),
                    }
                }
            });
            if rc.is_ok() {
                let dc = format!("{c:?}");
                agg.debug_compared += 1;
                if dc != da {
                    findings.push((
                        last,
                        Finding {
                            signature: "C20/nondeterministic/clone_then_suffix".into(),
                            what: "a clone taken mid-way and fed the remaining frames differs from the original state".into(),
                            detail: first_diff(&da, &dc),
                        },
                    ));
                }
            }
        }
        // render: total on every size, and a function of the state
        for (w, h) in all_sizes.iter().skip(if end_sizes < all_sizes.len() { 1 } else { 0 }).take(end_sizes) {
            for mode in [RenderMode::Json, RenderMode::Decoded] {
                agg.renders += 2;
                let ra = render_buf(&a, mode, &case.input, *w, *h);
                let rb2 = render_buf(&b, mode, &case.input, *w, *h);
                match (ra, rb2) {
                    (Ok(x), Ok(y)) => {
                        agg.buffers_compared += 1;
                        if rb.is_ok() && x != y {
                            findings.push((
                                last,
                                Finding {
                                    signature: "C20/nondeterministic/render_buffer".into(),
                                    what: format!("two states built from the same script render differently at {w}x{h}"),
                                    detail: json!({"width": w, "height": h, "mode": format!("{mode:?}")}),
                                },
                            ));
                        }
                    }
                    (Err(p), _) | (_, Err(p)) => {
                        agg.render_panics += 1;
                        findings.push((last, render_finding(&a, mode, *w, *h, &p)));
                    }
                }
            }
        }
    }
    if tr.consecutive {
        agg.consecutive_cases += 1;
    } else {
        agg.nonconsecutive_cases += 1;
    }
    FoldOutcome {
        findings,
        shape: fnv(&shape),
        nontrivial: n_frames >= 2 && interesting,
        frames: n_frames,
        aborted,
    }
}

fn step_trace(case: &Case, upto: usize, n: usize) -> Vec<Value> {
    let lo = (upto + 1).saturating_sub(n);
    case.steps
        .iter()
        .enumerate()
        .skip(lo)
        .take(upto + 1 - lo)
        .map(|(i, s)| match s {
            Step::Frame(e) => json!({"i": i, "type": VARIANT_NAMES[variant_index(&e.kind)], "seq": e.seq.to_string(),
                                     "ts": e.timestamp_ms.to_string(), "stream": e.session_id}),
            Step::Ui(op) => json!({"i": i, "ui": clip(&format!("{op:?}"), 80)}),
        })
        .collect()
}

fn report_case(r: &mut Report, part: &str, idx: u64, case: &Case, out: &FoldOutcome) {
    for (step, f) in &out.findings {
        r.violation(
            &f.signature,
            &f.what,
            json!({
                "part": part, "case": idx, "step": step,
                "max_frames": case.max_frames, "max_output_bytes": case.max_output,
                "steps_total": case.steps.len(),
                "trace_tail": step_trace(case, *step, 24),
                "detail": f.detail,
                "replay": "rv C20 --replay <this file> re-generates the case from seed + case index",
            }),
        );
    }
}

// ---------------------------------------------------------------------------------------------
// Part A — directed cases (run every time on shard 0)

fn ev(seq: u64, ts: u64, kind: EventKind) -> Event {
    Event { id: format!("d{seq}"), session_id: "s1".into(), timestamp_ms: ts, seq, kind }
}

fn delta(s: &str) -> EventKind {
    EventKind::OutputTextDelta { delta: s.to_string() }
}

fn directed_case(name: &str, max_frames: usize, max_output: usize, steps: Vec<Step>) -> (String, Case) {
    (
        name.to_string(),
        Case {
            max_frames,
            max_output,
            steps,
            input: String::new(),
            extra_sizes: Vec::new(),
            consecutive_only: false,
            streams: 1,
        },
    )
}

fn directed_fold_cases() -> Vec<(String, Case)> {
    let f = |seqs: &[u64]| -> Vec<Step> { seqs.iter().map(|s| Step::Frame(ev(*s, 1000, delta("x")))).collect() };
    let mut v = vec![
        // probe P1 of DESIGN.md §6
        directed_case("p1_gap_10_12_13", 8, 1024, f(&[10, 12, 13])),
        // auto-follow selects the seq just pushed; 11 arrives after 12
        directed_case("selected_after_out_of_order_10_12_11", 8, 1024, f(&[10, 12, 11])),
        directed_case("repeat_10_10_11", 8, 1024, f(&[10, 10, 11])),
        directed_case("decreasing_5_4_3", 8, 1024, f(&[5, 4, 3])),
        directed_case("evicting_window_with_gaps", 2, 1024, f(&[1, 3, 5, 7, 8])),
        directed_case("saturated_base_at_u64_max", 2, 1024, f(&[u64::MAX - 1, u64::MAX, 0, 1, 2])),
        directed_case("two_streams_interleaved", 10, 1024, {
            let mut s = Vec::new();
            for i in 0..6u64 {
                let mut e = ev(i / 2, 1000 + i, delta("y"));
                e.session_id = if i % 2 == 0 { "s1".into() } else { "s2".into() };
                s.push(Step::Frame(e));
            }
            s
        }),
        // well-ordered control: must be exact
        directed_case("consecutive_control_with_eviction", 3, 1024, f(&[7, 8, 9, 10, 11, 12])),
        // timestamp extremes through every ms accessor
        directed_case("timestamp_extremes", 10, 64, vec![
            Step::Frame(ev(0, u64::MAX, EventKind::SessionStarted { input: "hi".into() })),
            Step::Frame(ev(1, u64::MAX, EventKind::OpenResponsesRequestStarted { endpoint: "e".into(), model: None, request_index: 0, kind: "k".into() })),
            Step::Frame(ev(2, 0, EventKind::OpenResponsesResponseHeaders { request_index: 0, status: 200, request_id: None, content_type: None })),
            Step::Frame(ev(3, 0, EventKind::OpenResponsesResponseFirstByte { request_index: 0 })),
            Step::Frame(ev(4, 0, EventKind::ProviderEvent { provider: "openresponses".into(), status: ProviderEventStatus::Event, event_name: None, data: None, raw: None, errors: vec![], response_errors: vec![] })),
            Step::Frame(ev(5, 0, delta("a"))),
            Step::Ui(UiOp::Now(0)),
            Step::Frame(ev(6, 0, EventKind::SessionEnded { reason: "done".into() })),
            Step::Ui(UiOp::Now(u64::MAX)),
            Step::Ui(UiOp::SetOverlay(Overlay::StallDetail)),
            Step::Ui(UiOp::ToggleActivity),
        ]),
        // terminal frames without a start, unknown ids
        directed_case("terminals_without_start", 10, 64, vec![
            Step::Frame(ev(0, 1, EventKind::ToolEnded { tool_id: "nope".into(), exit_code: 1, duration_ms: u64::MAX, artifacts: None })),
            Step::Frame(ev(1, 1, EventKind::ToolFailed { tool_id: "nope".into(), error: "e".into() })),
            Step::Ui(UiOp::OpenDetail),
            Step::Frame(ev(2, 1, EventKind::ToolTaskStatus { task_id: "ghost".into(), status: ToolTaskStatus::Failed, exit_code: None, started_at_ms: None, ended_at_ms: None, artifacts: None, error: Some("x".into()) })),
            Step::Frame(ev(3, 1, EventKind::ToolTaskOutputDelta { task_id: "ghost2".into(), stream: ToolTaskStream::Pty, chunk: "zz".into(), artifacts: None })),
            Step::Frame(ev(4, 1, EventKind::ContinuityJobEnded { job_id: "j".into(), job_kind: "k".into(), status: "s".into(), result: None, error: None, actor_id: "a".into(), origin: "o".into() })),
            Step::Frame(ev(5, 1, EventKind::SessionEnded { reason: "r".into() })),
            Step::Ui(UiOp::OpenDetail),
            Step::Ui(UiOp::ToggleTasks),
        ]),
    ];
    // truncation-boundary sweep for output_text: capacity × char width × byte offset
    let mut steps = Vec::new();
    for (w, c) in [(1usize, 'a'), (2, 'é'), (3, '中'), (4, '🙂')] {
        for off in 0..4usize {
            let _ = w;
            steps.push((c, off));
        }
    }
    for m in [0usize, 1, 2, 3, 4, 5, 7, 8, 9, 16, 33] {
        let mut s = Vec::new();
        let mut seq = 0u64;
        for (c, off) in &steps {
            for extra in [0usize, 1, 2, 3] {
                s.push(Step::Frame(ev(seq, 5, delta(&uniform(*c, *off, m + extra)))));
                seq += 1;
            }
            s.push(Step::Frame(ev(seq, 5, EventKind::SessionStarted { input: uniform(*c, *off, m / 2 + 1) })));
            seq += 1;
        }
        v.push(directed_case(&format!("output_boundary_sweep_max{m}"), 4, m, s));
    }
    // preview sweep: the 8 KiB cut falls at every offset inside 2/3/4-byte characters
    let mut s = Vec::new();
    let mut seq = 0u64;
    s.push(Step::Frame(ev(seq, 1, EventKind::ToolStarted { tool_id: "t1".into(), name: "cat".into(), args: json!({}), timeout_ms: None })));
    s.push(Step::Frame(ev(seq + 1, 1, EventKind::ToolTaskSpawned { task_id: "k1".into(), tool_name: "bash".into(), args: json!({}), cwd: None, title: None, execution_mode: ToolTaskExecutionMode::Pty, origin_session_id: None, artifacts: None })));
    seq += 2;
    for c in ['a', 'é', '中', '🙂'] {
        for off in 0..4usize {
            let chunk = uniform(c, off, PREVIEW_LIMIT + 1 + off);
            let k = match (seq / 2) % 5 {
                0 => EventKind::ToolStdout { tool_id: "t1".into(), chunk },
                1 => EventKind::ToolStderr { tool_id: "t1".into(), chunk },
                2 => EventKind::ToolTaskOutputDelta { task_id: "k1".into(), stream: ToolTaskStream::Stdout, chunk, artifacts: None },
                3 => EventKind::ToolTaskOutputDelta { task_id: "k1".into(), stream: ToolTaskStream::Stderr, chunk, artifacts: None },
                _ => EventKind::ToolTaskOutputDelta { task_id: "k1".into(), stream: ToolTaskStream::Pty, chunk, artifacts: None },
            };
            s.push(Step::Frame(ev(seq, 1, k)));
            s.push(Step::Frame(ev(seq + 1, 1, EventKind::ToolStdout { tool_id: "t1".into(), chunk: uniform(c, (off + 1) % 4, 4097) })));
            seq += 2;
        }
    }
    v.push(directed_case("preview_boundary_sweep_8k", 4, 64, s));
    v
}

/// Fixed states for the render sweep: what a narrow or squeezed terminal shows during an
/// ordinary run (a running tool, context compiled, artifacts, an error, tasks).
fn sweep_states() -> Vec<(&'static str, TuiState)> {
    let mut out = Vec::new();
    let base = |name: &str| {
        let mut s = TuiState::new(100, 4096);
        s.update(ev(0, 1000, EventKind::SessionStarted { input: "list the files".into() }));
        s.update(ev(1, 1100, EventKind::ToolStarted { tool_id: "t1".into(), name: name.into(), args: json!({"path": "."}), timeout_ms: None }));
        s
    };
    out.push(("running_tool_ls", base("ls")));
    out.push(("running_tool_cat", base("cat")));
    let mut s = base("bash");
    s.update(ev(2, 1200, EventKind::ContinuityContextCompiled {
        run_session_id: "s1".into(), bundle_artifact_id: format!("{:064x}", 7), compiler_id: "c".into(),
        compiler_strategy: "recent_messages_v1".into(), from_seq: 0, from_message_id: None, actor_id: "u".into(), origin: "cli".into() }));
    s.update(ev(3, 1300, EventKind::ToolTaskSpawned { task_id: "k1".into(), tool_name: "bash".into(), args: json!({}), cwd: None,
        title: Some("build".into()), execution_mode: ToolTaskExecutionMode::Pipes, origin_session_id: None, artifacts: None }));
    s.update(ev(4, 1400, EventKind::ContinuityJobSpawned { job_id: "j1".into(), job_kind: "compaction_summarizer_v1".into(), details: None, actor_id: "u".into(), origin: "cli".into() }));
    s.update(ev(5, 1500, EventKind::ToolFailed { tool_id: "t9".into(), error: "boom".into() }));
    s.update(ev(6, 1600, delta("hello wörld 中文 🙂\nsecond line")));
    out.push(("tool_ctx_task_job_error", s));
    out.push(("empty", TuiState::new(100, 4096)));
    out
}

fn render_sweep(r: &mut Report, agg: &mut Agg) {
    let overlays: Vec<Overlay> = vec![
        Overlay::None,
        Overlay::Activity,
        Overlay::TaskList,
        Overlay::ToolDetail { tool_id: "t1".into() },
        Overlay::TaskDetail { task_id: "k1".into() },
        Overlay::ErrorDetail { seq: 5 },
        Overlay::StallDetail,
    ];
    let mut sizes: Vec<(u16, u16)> = Vec::new();
    // descending, so that the witness kept per signature is the LARGEST terminal that panics
    for h in (1..=30u16).rev() {
        sizes.push((80, h));
        sizes.push((24, h));
    }
    for w in (1..=130u16).rev() {
        sizes.push((w, 24));
    }
    sizes.extend_from_slice(&SIZES);
    let mut n = 0u64;
    let mut panicking: std::collections::BTreeMap<String, BTreeSet<(u16, u16)>> = Default::default();
    for (name, st) in sweep_states() {
        for raw in [false, true] {
            for ov in &overlays {
                let mut s = st.clone();
                if raw {
                    s.toggle_output_view();
                }
                s.overlay = ov.clone();
                for (w, h) in &sizes {
                    n += 1;
                    agg.renders += 1;
                    let mode = if (w + h) % 2 == 0 { RenderMode::Json } else { RenderMode::Decoded };
                    if let Err(p) = render_buf(&s, mode, "", *w, *h) {
                        agg.render_panics += 1;
                        let f = render_finding(&s, mode, *w, *h, &p);
                        panicking.entry(f.signature.clone()).or_default().insert((*w, *h));
                        r.violation(
                            &f.signature,
                            &f.what,
                            json!({"part": "directed", "name": "render_sweep", "state": name, "detail": f.detail,
                                   "repro": "TuiState as in c20.rs sweep_states(), rip_tui::render on TestBackend::new(width, height)"}),
                        );
                    }
                }
            }
        }
    }
    r.count("directed_render_sweep_renders", n);
    let mut m = serde_json::Map::new();
    for (sig, set) in panicking {
        let v: Vec<String> = set.iter().rev().take(48).map(|(w, h)| format!("{w}x{h}")).collect();
        m.insert(sig, json!({"sizes": set.len(), "largest_first": v}));
    }
    r.note("render_sweep_panicking_terminal_sizes", Value::Object(m));
}

fn run_directed(r: &mut Report, agg: &mut Agg, only: Option<&str>) {
    if only.is_none() || only == Some("render_sweep") {
        r.eval();
        render_sweep(r, agg);
    }
    let mut rng = Rng::new(20);
    for (name, case) in directed_fold_cases() {
        if let Some(o) = only {
            if o != name {
                continue;
            }
        }
        r.eval();
        let out = run_fold(&case, &mut rng, agg, true);
        r.distinct_str(&format!("directed:{name}"));
        r.count("directed_cases", 1);
        for (step, f) in &out.findings {
            r.violation(
                &f.signature,
                &f.what,
                json!({"part": "directed", "name": name, "step": step, "max_frames": case.max_frames,
                       "max_output_bytes": case.max_output, "trace_tail": step_trace(&case, *step, 12), "detail": f.detail}),
            );
        }
    }
}

// ---------------------------------------------------------------------------------------------
// Part B — the real headless renderers behind a fake authority

struct CliOut {
    code: Option<i32>,
    stdout: Vec<u8>,
    stderr: Vec<u8>,
    timed_out: bool,
    wall_ms: u128,
}

fn run_cli(bin: &str, server: &str, prompt: &str, view: &str) -> std::io::Result<CliOut> {
    use std::io::Read;
    use std::process::{Command, Stdio};
    let start = Instant::now();
    let mut c = Command::new(bin);
    c.arg("run").arg(prompt).arg("--server").arg(server).arg("--headless").arg("true").arg("--view").arg(view);
    for k in ["http_proxy", "HTTP_PROXY", "https_proxy", "HTTPS_PROXY", "all_proxy", "ALL_PROXY", "RIP_VERIF_DELAY", "RIP_VERIF_ABORT"] {
        c.env_remove(k);
    }
    c.env("NO_PROXY", "127.0.0.1,localhost").env("RUST_BACKTRACE", "0");
    c.stdin(Stdio::null()).stdout(Stdio::piped()).stderr(Stdio::piped());
    let mut child = c.spawn()?;
    let mut so = child.stdout.take().expect("stdout");
    let mut se = child.stderr.take().expect("stderr");
    let t1 = std::thread::spawn(move || {
        let mut b = Vec::new();
        let _ = so.read_to_end(&mut b);
        b
    });
    let t2 = std::thread::spawn(move || {
        let mut b = Vec::new();
        let _ = se.read_to_end(&mut b);
        b
    });
    let deadline = Instant::now() + Duration::from_secs(20);
    let mut timed_out = false;
    let code = loop {
        match child.try_wait()? {
            Some(st) => break st.code(),
            None => {
                if Instant::now() > deadline {
                    timed_out = true;
                    let _ = child.kill();
                    let st = child.wait()?;
                    break st.code();
                }
                std::thread::sleep(Duration::from_millis(2));
            }
        }
    };
    Ok(CliOut {
        code,
        stdout: t1.join().unwrap_or_default(),
        stderr: t2.join().unwrap_or_default(),
        timed_out,
        wall_ms: start.elapsed().as_millis(),
    })
}

fn hostile_chunks(rng: &mut Rng, len: usize) -> (Vec<usize>, u64) {
    let mut chunks = Vec::new();
    let mut left = len;
    let style = rng.below(4);
    // cap the number of chunks so that a run stays in the tens of milliseconds
    while left > 0 && chunks.len() < 1500 {
        let n = match style {
            0 => 1 + rng.usize(3),
            1 => 1 + rng.usize(17),
            2 => 1 + rng.usize(200),
            _ => *rng.pick(&[1usize, 2, 3, 5, 6, 7, 64, 1000]),
        }
        .min(left);
        chunks.push(n);
        left -= n;
    }
    (chunks, if rng.chance(1, 3) { 50 } else { 0 })
}

fn gen_cli_frames(cfg: &Cfg, rng: &mut Rng) -> Vec<Event> {
    let n = match rng.below(4) {
        0 => 1 + rng.usize(3),
        _ => 3 + rng.usize(cfg.tier.pick(70, 160)),
    };
    let n_streams = 1 + rng.usize(2);
    let mut streams: Vec<StreamGen> = (0..n_streams).map(|i| StreamGen::new(rng, i, false)).collect();
    // where the terminal frame sits: none / middle (frames after it must not be rendered) / end
    let term = match rng.below(4) {
        0 => None,
        1 => Some(rng.usize(n)),
        _ => Some(n - 1),
    };
    let mut big = if rng.chance(1, 4) { 2 } else { 0 };
    let mut out = Vec::new();
    for i in 0..n {
        let v = if Some(i) == term {
            2
        } else if rng.chance(1, 3) {
            *rng.pick(&[0usize, 1, 1, 1, 18, 19, 21, 23, 24, 25, 26, 26])
        } else {
            let mut v = rng.usize(N_VARIANTS);
            // a second terminal frame only by explicit choice above
            if v == 2 && term.is_some() && rng.chance(3, 4) {
                v = 1;
            }
            v
        };
        let si = rng.usize(streams.len());
        let seq = streams[si].next_seq(rng);
        let ts = streams[si].next_ts(rng);
        let kind = {
            let mut g = Gen { rng, out_hint: 64, big_budget: big };
            let k = g.kind(v);
            big = g.big_budget;
            k
        };
        out.push(Event { id: format!("c{i}"), session_id: streams[si].id.clone(), timestamp_ms: ts, seq, kind });
    }
    out
}

fn rip_bin() -> String {
    std::env::var("RV_RIP_BIN").unwrap_or_else(|_| DEFAULT_RIP_BIN.to_string())
}

fn cli_case(cfg: &Cfg, r: &mut Report, fa: &FakeAuthority, bin: &str, j: u64) {
    let mut rng = cfg.case_rng(CLI_LANE + j);
    let frames = gen_cli_frames(cfg, &mut rng);
    let payloads: Vec<String> = frames.iter().filter_map(|e| serde_json::to_string(e).ok()).collect();
    if payloads.len() != frames.len() {
        r.inconclusive(&format!("cli case {j}: a generated frame could not be serialized"));
        return;
    }
    let first_end = frames.iter().position(|e| matches!(e.kind, EventKind::SessionEnded { .. }));
    let upto = first_end.map(|p| p + 1).unwrap_or(frames.len());
    let mut expected_raw: Vec<u8> = Vec::new();
    for p in &payloads[..upto] {
        expected_raw.extend_from_slice(p.as_bytes());
        expected_raw.push(b'\n');
    }
    let body_plain = sse_body(&payloads, None);
    let body_ka = sse_body(&payloads, Some(1 + rng.usize(4)));
    let (chunks, pause_us) = hostile_chunks(&mut rng, body_ka.len());
    let shape: Vec<u8> = frames.iter().map(|e| variant_index(&e.kind) as u8).collect();
    let witness = |view: &str, extra: Value| {
        json!({"part": "cli", "case": j, "view": view, "frames": payloads.len(), "terminal_at": first_end,
               "types": frames.iter().map(|e| VARIANT_NAMES[variant_index(&e.kind)]).collect::<Vec<_>>(),
               "payloads_head": payloads.iter().take(6).map(|p| clip(p, 300)).collect::<Vec<_>>(),
               "chunks_head": chunks.iter().take(16).collect::<Vec<_>>(), "detail": extra,
               "repro": "rv C20 --replay <this file>; or: rv fakeauth --frames <payloads.jsonl> & rip run x --server http://127.0.0.1:PORT --view <view>"})
    };
    for view in ["raw", "output", "metrics"] {
        let pa = format!("c20-{j}-{view}-a");
        let pb = format!("c20-{j}-{view}-b");
        fa.register(&pa, StreamSpec { body: body_plain.clone(), chunks: Vec::new(), pause_us: 0 });
        fa.register(&pb, StreamSpec { body: body_ka.clone(), chunks: chunks.clone(), pause_us });
        let mut outs: Vec<CliOut> = Vec::new();
        let mut harness_problem = false;
        for p in [&pa, &pb] {
            match run_cli(bin, &fa.base_url(), p, view) {
                Ok(o) => outs.push(o),
                Err(e) => {
                    r.inconclusive(&format!("cli case {j}: cannot run {bin}: {e}"));
                    harness_problem = true;
                    break;
                }
            }
        }
        fa.unregister(&pa);
        fa.unregister(&pb);
        if harness_problem {
            return;
        }
        r.count("cli_runs", outs.len() as u64);
        r.count("cli_wall_ms", outs.iter().map(|o| o.wall_ms as u64).sum());
        let mut judged = true;
        for (k, o) in outs.iter().enumerate() {
            let stderr = String::from_utf8_lossy(&o.stderr).to_string();
            if o.code == Some(101) || stderr.contains("panicked at") {
                let at = stderr
                    .lines()
                    .find(|l| l.contains("panicked at"))
                    .map(|l| clip(&l[l.find("panicked at").unwrap_or(0)..], 200))
                    .unwrap_or_default();
                // "thread 'main' panicked at crates/rip-cli/src/main.rs:881:21:" -> file part only
                let file = at.split("panicked at ").nth(1).and_then(|s| s.split(':').next()).map(basename).unwrap_or("?").to_string();
                r.violation(
                    &format!("C20/cli_panic/{view}/{file}"),
                    &format!("`rip run --view {view}` panicked while consuming well-formed frames: {at}"),
                    witness(view, json!({"exit_code": o.code, "stderr": clip(&stderr, 1200), "chunked": k == 1})),
                );
                judged = false;
            } else if o.timed_out {
                r.inconclusive(&format!("cli case {j} view {view}: no exit within the watchdog (20 s)"));
                judged = false;
            } else if o.code != Some(0) {
                if stderr.contains("invalid event frame") {
                    let lines = o.stdout.iter().filter(|b| **b == b'\n').count();
                    let which = if view == "raw" { frames.get(lines).map(|e| VARIANT_NAMES[variant_index(&e.kind)]) } else { None };
                    r.violation(
                        &format!("C20/cli_rejects_wellformed_frame/{}", which.unwrap_or("unknown_variant")),
                        &format!("`rip run --view {view}` rejected a frame serialized by rip_kernel::Event: {}", clip(&stderr, 300)),
                        witness(view, json!({"exit_code": o.code, "stderr": clip(&stderr, 1200), "chunked": k == 1})),
                    );
                } else {
                    r.inconclusive(&format!(
                        "cli case {j} view {view}: exit {:?} without a frame error: {}",
                        o.code,
                        clip(&stderr, 200)
                    ));
                }
                judged = false;
            }
        }
        if !judged {
            continue;
        }
        r.eval();
        r.distinct(fnv(&shape) ^ crate::prng::fnv_str(view));
        r.count("cli_stdout_bytes_compared", outs[0].stdout.len() as u64);
        if outs[0].stdout != outs[1].stdout {
            let a = String::from_utf8_lossy(&outs[0].stdout).to_string();
            let b = String::from_utf8_lossy(&outs[1].stdout).to_string();
            r.violation(
                &format!("C20/cli_same_frames_different_stdout/{view}"),
                &format!("`rip run --view {view}` printed different stdout for the same frames (whole body vs. chunked body with keep-alive comments)"),
                witness(view, first_diff(&a, &b)),
            );
        } else {
            r.count("cli_pairs_equal", 1);
        }
        if view == "raw" {
            for (k, o) in outs.iter().enumerate() {
                if o.stdout != expected_raw {
                    let a = String::from_utf8_lossy(&expected_raw).to_string();
                    let b = String::from_utf8_lossy(&o.stdout).to_string();
                    let class = if o.stdout.len() > expected_raw.len() && o.stdout.starts_with(&expected_raw) {
                        "frames_after_terminal_frame_echoed"
                    } else if expected_raw.starts_with(&o.stdout) {
                        "frames_missing"
                    } else {
                        "payload_altered"
                    };
                    r.violation(
                        &format!("C20/cli_raw_view_not_an_echo/{class}"),
                        "raw view stdout differs from the frame payloads up to the terminal frame",
                        witness(view, json!({"chunked": k == 1, "diff": first_diff(&a, &b)})),
                    );
                } else {
                    r.count("cli_raw_echo_exact", 1);
                }
            }
        }
        if view == "metrics" && first_end.is_some() {
            let ok = serde_json::from_slice::<Value>(&outs[0].stdout).is_ok();
            r.count(if ok { "cli_metrics_json_ok" } else { "cli_metrics_not_json" }, 1);
        }
    }
}

fn cli_part(cfg: &Cfg, r: &mut Report, only: Option<u64>) {
    let bin = rip_bin();
    if !std::path::Path::new(&bin).is_file() {
        r.inconclusive(&format!(
            "headless part skipped: {bin} not found (build with lib/build.sh --with-rip or set RV_RIP_BIN)"
        ));
        r.note("cli_binary", json!({"path": bin, "present": false}));
        return;
    }
    r.note("cli_binary", json!({"path": bin, "present": true}));
    let fa = FakeAuthority::start();
    if let Some(j) = only {
        cli_case(cfg, r, &fa, &bin, j);
        return;
    }
    let per_shard = cfg.tier.pick(8u64, 600u64);
    let share = cfg.tier.pick(0.35, 0.25);
    let mut done = 0u64;
    let mut j = 0u64;
    while done < per_shard && r.elapsed() < cfg.budget_s * share {
        let idx = j;
        j += 1;
        if !cfg.mine(idx) {
            continue;
        }
        cli_case(cfg, r, &fa, &bin, idx);
        done += 1;
    }
    r.count("cli_cases", done);
    r.count("fake_authority_requests", fa.request_count() as u64);
}

// ---------------------------------------------------------------------------------------------

pub fn run(cfg: &Cfg) -> i32 {
    let mut r = Report::new(
        "C20",
        "exploration",
        "seeded frame scripts over all 38 EventKind variants (table-driven) with seq policies consecutive/gaps/repeats/\
         decreasing/wild/mixed (0, u64::MAX, wrap), 1–3 interleaved stream ids, arbitrary timestamps, unknown ids, terminal \
         frames without start, text sized around every truncation bound with 1–4-byte characters at every offset, UI \
         operations interleaved; capacities max_frames∈{0,1,2,3,4,10,64,10000} × max_output_bytes∈{0..1e6}; plus directed \
         boundary/render sweeps and the real `rip run --view raw|output|metrics` behind a fake authority. A case is \
         non-trivial when ≥2 frames were folded and an eviction, an output/preview truncation or a non-consecutive seq \
         occurred; distinct = hash of (capacities, per-step variant, seq relation to the previous push, stream switch, \
         extreme-seq flag); CLI cases: distinct (variant sequence, view)",
    );
    r.assume("TestBackend rendering exercises the same rip_tui::render code as a real terminal backend");
    r.assume("preview bound is the crate-private DEFAULT_MAX_PREVIEW_BYTES = 8192 (not configurable through TuiState::new)");
    r.assume("map sizes (tools/tasks/jobs/artifacts) and the headless renderers' buffers are recorded, not judged: no configured bound governs them");
    r.assume("UI operations are those reachable through TuiState's public API / rip-cli fullscreen key handlers (move_selected re-stated)");
    install_hook();
    let mut agg = Agg { variants: vec![0; N_VARIANTS], ..Agg::default() };

    if let Some(path) = &cfg.replay {
        replay(cfg, &mut r, &mut agg, path);
        finish_evidence(&mut r, &agg);
        return r.finish(cfg);
    }

    // thorough tier, shard 0: Miri pass over the pure fold, as a child process next to the fold loop
    let mut miri: Option<MiriJob> = None;
    if cfg.shard.0 == 0 && cfg.tier == crate::report::Tier::Thorough && !cfg.has_flag("--no-miri") || cfg.has_flag("--miri") && cfg.shard.0 == 0 {
        match miri_spawn(cfg) {
            Ok(j) => miri = Some(j),
            Err(e) => r.inconclusive(&format!("Miri pass skipped: {e}")),
        }
    }
    if cfg.shard.0 == 0 {
        run_directed(&mut r, &mut agg, None);
        r.note("directed_wall_s", json!((r.elapsed() * 100.0).round() / 100.0));
    }
    if !cfg.has_flag("--no-cli") {
        cli_part(cfg, &mut r, None);
    }

    let max_cases = cfg.tier.pick(40_000u64, 50_000_000u64);
    let mut idx = 0u64;
    let mut sampled = 0;
    while idx < max_cases && !r.over(cfg) {
        let i = idx;
        idx += 1;
        if !cfg.mine(i) {
            continue;
        }
        let mut rng = cfg.case_rng(i);
        let case = gen_case(cfg, &mut rng);
        let out = run_fold(&case, &mut rng, &mut agg, true);
        r.eval();
        if out.nontrivial {
            r.distinct(out.shape);
        }
        report_case(&mut r, "fold", i, &case, &out);
        if sampled < 3 && out.frames >= 5 {
            sampled += 1;
            r.sample(json!({
                "case": i, "max_frames": case.max_frames, "max_output_bytes": case.max_output, "streams": case.streams,
                "consecutive_only": case.consecutive_only, "steps": case.steps.len(), "frames": out.frames,
                "aborted_by_panic": out.aborted, "trace_head": step_trace(&case, case.steps.len().min(8).saturating_sub(1), 8),
            }));
        }
    }
    r.count("fold_cases", r.evaluations);
    if let Some(job) = miri {
        // Miri may use the whole budget of the shard plus a short grace period
        let deadline = r.start + Duration::from_secs_f64(cfg.budget_s + 20.0);
        miri_collect(&mut r, job, deadline);
    }
    finish_evidence(&mut r, &agg);
    if agg.frames == 0 {
        r.fatal_inconclusive("no frame was folded");
    }
    r.finish(cfg)
}

fn finish_evidence(r: &mut Report, agg: &Agg) {
    r.count("frames_folded", agg.frames);
    r.count("ui_ops_applied", agg.ui_ops);
    r.count("evictions", agg.evictions);
    r.count("output_truncations", agg.output_truncations);
    r.count("preview_truncations", agg.preview_truncations);
    r.count("lookups_checked", agg.lookups);
    r.count("lookups_returning_a_frame", agg.lookups_some);
    r.count("lookups_returning_other_frame", agg.lookups_wrong);
    r.count("selected_event_checks", agg.selected_checked);
    r.count("renders", agg.renders);
    r.count("render_panics", agg.render_panics);
    r.count("render_buffers_compared", agg.buffers_compared);
    r.count("state_debug_comparisons", agg.debug_compared);
    r.count("state_debug_bytes_compared", agg.debug_bytes);
    r.count("frame_parser_roundtrips", agg.wire_roundtrips);
    r.count("accessor_sweeps", agg.accessor_calls);
    r.count("terminal_frames_without_start", agg.terminal_without_start);
    r.count("frames_for_unknown_ids", agg.unknown_id_frames);
    r.count("cases_nonconsecutive_seq", agg.nonconsecutive_cases);
    r.count("cases_consecutive_seq", agg.consecutive_cases);
    let covered = agg.variants.iter().filter(|n| **n > 0).count();
    r.count("variants_covered_in_this_shard", covered as u64);
    let mut per: serde_json::Map<String, Value> = serde_json::Map::new();
    for (i, n) in agg.variants.iter().enumerate() {
        per.insert(VARIANT_NAMES[i].to_string(), json!(n));
    }
    r.note("frames_per_variant_first_shard", Value::Object(per));
    r.note(
        "recorded_not_judged_first_shard",
        json!({"max_tools": agg.max_tools, "max_tasks": agg.max_tasks, "max_jobs": agg.max_jobs, "max_artifacts": agg.max_artifacts}),
    );
    r.note(
        "max_observed_first_shard",
        json!({"frames_len": agg.max_frames_len, "output_text_len_when_bound_below_1e6": agg.max_output_len, "preview_len": agg.max_preview_len}),
    );
}

fn replay(cfg: &Cfg, r: &mut Report, agg: &mut Agg, path: &std::path::Path) {
    let doc: Value = match std::fs::read(path).ok().and_then(|b| serde_json::from_slice(&b).ok()) {
        Some(v) => v,
        None => {
            r.fatal_inconclusive("cannot read the replay witness");
            return;
        }
    };
    let w = doc.get("witness").cloned().unwrap_or(Value::Null);
    let part = w.get("part").and_then(|x| x.as_str()).unwrap_or("");
    // the witness fixes seed and tier; the case index regenerates the script
    let mut c2 = cfg.clone();
    if let Some(s) = doc.get("seed").and_then(|x| x.as_u64()) {
        c2.seed = s;
    }
    if doc.get("tier").and_then(|x| x.as_str()) == Some("thorough") {
        c2.tier = crate::report::Tier::Thorough;
    }
    match part {
        "directed" => {
            let name = w.get("name").and_then(|x| x.as_str()).unwrap_or("");
            run_directed(r, agg, Some(name));
        }
        "cli" => {
            let j = w.get("case").and_then(|x| x.as_u64()).unwrap_or(0);
            cli_part(&c2, r, Some(j));
        }
        "fold" => {
            let i = w.get("case").and_then(|x| x.as_u64()).unwrap_or(0);
            let mut rng = c2.case_rng(i);
            let case = gen_case(&c2, &mut rng);
            let out = run_fold(&case, &mut rng, agg, true);
            r.eval();
            report_case(r, "fold", i, &case, &out);
        }
        _ => r.fatal_inconclusive("witness has no known part (directed|cli|fold)"),
    }
}

// ---------------------------------------------------------------------------------------------
// Miri pass over the pure fold (thorough tier): `miri-c20/` is a tiny crate that includes this
// file and calls `miri_main`; the parent `rv C20 --tier thorough` runs it under
// `cargo +nightly miri run` and turns its FINDING lines / a Miri abort into verdicts.

pub fn miri_main() -> i32 {
    // parameters come as program arguments: cargo-miri replays the BUILD-time environment
    let args: Vec<u64> = std::env::args().skip(1).filter_map(|a| a.parse().ok()).collect();
    let first = args.first().copied().unwrap_or(0);
    let cases = args.get(1).copied().unwrap_or(12);
    let seed = args.get(2).copied().unwrap_or(1);
    let cfg = Cfg {
        id: "C20".into(),
        tier: crate::report::Tier::Quick,
        seed,
        out: std::path::PathBuf::from("/dev/null"),
        shard: (0, 1),
        replay: None,
        root: std::path::PathBuf::from("/nonexistent"),
        budget_s: 1e9,
        extra: Vec::new(),
    };
    let mut agg = Agg { variants: vec![0; N_VARIANTS], ..Agg::default() };
    let mut sigs: BTreeSet<String> = BTreeSet::new();
    LIGHT.store(true, std::sync::atomic::Ordering::Relaxed);
    for i in first..first + cases {
        let mut rng = cfg.case_rng(i);
        let mut case = gen_case(&cfg, &mut rng);
        case.steps.truncate(24);
        case.extra_sizes.clear();
        let out = run_fold_with(&case, &mut rng, &mut agg, false, 0);
        for (_, f) in &out.findings {
            if sigs.insert(f.signature.clone()) {
                println!("FINDING {} :: {}", f.signature, clip(&f.what, 200).replace('\n', " "));
            }
        }
        println!("CASE-DONE {i} frames={} lookups={} debug_comparisons={}", agg.frames, agg.lookups, agg.debug_compared);
        if i == first + 2 {
            // one render (the layout solver costs tens of seconds per draw under Miri)
            if let Some((_, st)) = sweep_states().into_iter().nth(2) {
                if let Err(p) = render_buf(&st, RenderMode::Json, "", 80, 24) {
                    println!("FINDING {} :: render panicked under Miri: {}", panic_signature("render", &p), clip(&p.msg, 160));
                } else {
                    println!("RENDER-DONE 80x24");
                }
            }
        }
    }
    println!("MIRI-DONE cases={cases}");
    0
}

struct MiriJob {
    child: std::process::Child,
    started: Instant,
    first: u64,
    cases: u64,
}

fn miri_spawn(cfg: &Cfg) -> Result<MiriJob, String> {
    use std::process::{Command, Stdio};
    let harness = std::env::var("RV_HARNESS_DIR").unwrap_or_else(|_| env!("CARGO_MANIFEST_DIR").to_string());
    let manifest = std::path::Path::new(&harness).join("miri-c20").join("Cargo.toml");
    if !manifest.is_file() {
        return Err(format!("{} not found", manifest.display()));
    }
    // build output of the Miri pass lives with the other build output (git-ignored)
    let target = cfg.root.join("target").join("miri-c20");
    let cases = 40u64;
    let first = cfg.seed.wrapping_mul(1000) % 100_000;
    let mut c = Command::new("cargo");
    c.arg("+nightly").arg("miri").arg("run").arg("--offline").arg("--quiet").arg("--manifest-path").arg(&manifest);
    c.arg("--").arg(first.to_string()).arg(cases.to_string()).arg(cfg.seed.to_string());
    c.env("MIRIFLAGS", "-Zmiri-disable-isolation").env("CARGO_NET_OFFLINE", "true").env("CARGO_TARGET_DIR", &target);
    c.stdin(Stdio::null()).stdout(Stdio::piped()).stderr(Stdio::piped());
    let child = c.spawn().map_err(|e| format!("cannot start cargo +nightly miri: {e}"))?;
    Ok(MiriJob { child, started: Instant::now(), first, cases })
}

fn miri_collect(r: &mut Report, mut job: MiriJob, deadline: Instant) {
    use std::io::Read;
    let mut killed = false;
    loop {
        match job.child.try_wait() {
            Ok(Some(_)) => break,
            Ok(None) => {
                if Instant::now() > deadline {
                    let _ = job.child.kill();
                    killed = true;
                    let _ = job.child.wait();
                    break;
                }
                std::thread::sleep(Duration::from_millis(100));
            }
            Err(_) => break,
        }
    }
    let mut out = String::new();
    let mut err = String::new();
    if let Some(mut s) = job.child.stdout.take() {
        let _ = s.read_to_string(&mut out);
    }
    if let Some(mut s) = job.child.stderr.take() {
        let _ = s.read_to_string(&mut err);
    }
    let done = out.lines().filter(|l| l.starts_with("CASE-DONE")).count() as u64;
    let finished = out.lines().any(|l| l.starts_with("MIRI-DONE"));
    r.count("miri_cases_completed", done);
    r.count("miri_renders_completed", out.lines().filter(|l| l.starts_with("RENDER-DONE")).count() as u64);
    r.note(
        "miri",
        json!({"first_case": job.first, "cases_requested": job.cases, "cases_completed": done, "ran_to_end": finished,
               "stopped_by_budget": killed, "wall_s": job.started.elapsed().as_secs(),
               "last_line": out.lines().last().unwrap_or("")}),
    );
    for l in out.lines() {
        if let Some(rest) = l.strip_prefix("FINDING ") {
            let (sig, what) = rest.split_once(" :: ").unwrap_or((rest, ""));
            r.violation(sig, &format!("(under Miri) {what}"), json!({"part": "miri", "first_case": job.first, "cases": job.cases}));
        }
    }
    if err.contains("Undefined Behavior") {
        let at = err.lines().find(|l| l.contains("Undefined Behavior")).unwrap_or("");
        r.violation(
            "C20/miri/undefined_behavior",
            &format!("Miri reports undefined behaviour in the fold: {}", clip(at, 240)),
            json!({"part": "miri", "first_case": job.first, "cases": job.cases, "stderr": clip(&err, 3000)}),
        );
    } else if !finished && !killed {
        r.inconclusive(&format!("Miri pass did not run to the end (not a verdict): {}", clip(err.trim(), 300)));
    } else if done == 0 {
        r.inconclusive("Miri pass completed no case within its share of the budget");
    }
}
