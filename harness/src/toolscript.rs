//! Shared by C07 and C16 (included from c16.rs with `#[path]`): seeded OpenResponses conversation
//! scripts for the scripted provider, request routing by in-band markers, and an independent
//! reading of "which function calls did the provider really emit" from the bytes it served.
//!
//! Markers: every prompt carries `@@r<run>p@@`; turn t of run r answers with response id
//! `resp_@@r<run>t<t>@@` and call ids `c@@r<run>t<t>@@k<k>`. A request is routed by the last
//! marker it carries (previous_response_id, else the last input item that has one), so several
//! runs can share one provider and arrive in any order.

use crate::prng::Rng;
use crate::provider::{
    ev_args_delta, ev_args_done, ev_completed, ev_created, ev_item_added, ev_item_done, ev_text_delta,
    function_call_item, sse_done, sse_event, Provider, Recorded, Reply,
};
use serde_json::{json, Value};
use std::collections::HashMap;
use std::sync::{Arc, Mutex};
use std::time::Instant;

pub fn mark_prompt(run: u32) -> String {
    format!("@@r{run}p@@")
}

pub fn mark_turn(run: u32, turn: u32) -> String {
    format!("@@r{run}t{turn}@@")
}

/// Last marker in `s`: (run, None) for a prompt marker, (run, Some(turn)) for a turn marker.
pub fn last_marker(s: &str) -> Option<(u32, Option<u32>)> {
    let mut best: Option<(u32, Option<u32>)> = None;
    let mut rest = s;
    while let Some(pos) = rest.find("@@r") {
        let after = &rest[pos + 3..];
        let digits: String = after.chars().take_while(|c| c.is_ascii_digit()).collect();
        let tail = &after[digits.len()..];
        if !digits.is_empty() {
            if let Ok(run) = digits.parse::<u32>() {
                if tail.starts_with("p@@") {
                    best = Some((run, None));
                } else if let Some(t) = tail.strip_prefix('t') {
                    let td: String = t.chars().take_while(|c| c.is_ascii_digit()).collect();
                    if !td.is_empty() && t[td.len()..].starts_with("@@") {
                        if let Ok(turn) = td.parse::<u32>() {
                            best = Some((run, Some(turn)));
                        }
                    }
                }
            }
        }
        rest = &rest[pos + 3..];
    }
    best
}

/// Which (run, turn) does this request body ask for?
pub fn route_request(body: &Value) -> Option<(u32, u32)> {
    let conv = |m: (u32, Option<u32>)| match m {
        (r, None) => (r, 0),
        (r, Some(t)) => (r, t + 1),
    };
    // answers (call ids) and prompts in the input decide; previous_response_id is only a fallback,
    // because the engine keeps an older id when a response carried none
    let from_input = match body.get("input") {
        Some(Value::String(s)) => last_marker(s).map(conv),
        Some(Value::Array(items)) => {
            let mut found = None;
            for it in items.iter().rev() {
                let text = serde_json::to_string(it).unwrap_or_default();
                if let Some(m) = last_marker(&text) {
                    found = Some(conv(m));
                    break;
                }
            }
            found
        }
        _ => None,
    };
    if from_input.is_some() {
        return from_input;
    }
    body.get("previous_response_id")
        .and_then(|x| x.as_str())
        .and_then(last_marker)
        .map(conv)
}

#[derive(Clone, Copy, Debug, PartialEq, Eq, Hash)]
pub enum CallKind {
    WriteAppend,
    BashEcho,
    BashExit3,
    ReadFile,
    UnknownTool,
    MissingArg,
    ArgsNotJson,
    LongCallId,
    BadName,
}

#[derive(Clone, Copy, Debug, PartialEq, Eq, Hash)]
pub enum Emission {
    /// added(args "") → deltas → arguments.done → done(args full)
    Canonical,
    /// added(args "") → deltas → done(args "")  (arguments only via deltas)
    DeltasOnly,
    /// done(args full) and nothing else
    DoneOnly,
    /// added(args full) → done(args full)
    AddedFull,
    /// item without `id` (compat / stateless providers): added(full) → done(full)
    NoItemId,
    /// Canonical plus a second, identical output_item.done
    RepeatedDone,
    /// added + deltas, never done: not a completed call
    AddedOnly,
}

#[derive(Clone, Debug)]
pub struct CallSpec {
    pub call_id: String,
    pub item_id: Option<String>,
    pub output_index: u64,
    pub name: String,
    pub args: String,
    /// unique token that lands in the workspace when (and each time) the call is executed
    pub token: Option<String>,
    pub kind: CallKind,
    pub emission: Emission,
    /// another item of the same turn carries the same call id
    pub shares_call_id: bool,
}

impl CallSpec {
    /// class used in violation signatures (never contains ids)
    pub fn class(&self) -> &'static str {
        if self.shares_call_id {
            return "two_items_same_call_id";
        }
        match self.emission {
            Emission::Canonical => "canonical",
            Emission::DeltasOnly => "arguments_via_deltas_only",
            Emission::DoneOnly => "done_without_added",
            Emission::AddedFull => "added_full_done_full",
            Emission::NoItemId => "missing_item_id",
            Emission::RepeatedDone => "repeated_output_item_done",
            Emission::AddedOnly => "added_never_done",
        }
    }
}

#[derive(Clone, Debug, PartialEq, Eq)]
pub enum Fault {
    None,
    /// stream closes cleanly without `[DONE]`
    NoDone,
    Http { status: u16, with_body: bool, echo: bool },
    ResetAt(usize),
    HeadersOnly,
    EmptyBody,
}

impl Fault {
    pub fn class(&self) -> String {
        match self {
            Fault::None => "ok".into(),
            Fault::NoDone => "no_done".into(),
            Fault::Http { status, with_body, .. } => {
                format!("http{status}{}", if *with_body { "_body" } else { "_nobody" })
            }
            Fault::ResetAt(_) => "reset".into(),
            Fault::HeadersOnly => "headers_only".into(),
            Fault::EmptyBody => "empty_body".into(),
        }
    }
    /// the transport fails before the stream is complete (run is expected to end provider_error)
    pub fn is_transport(&self) -> bool {
        matches!(
            self,
            Fault::Http { .. } | Fault::ResetAt(_) | Fault::HeadersOnly | Fault::EmptyBody
        )
    }
}

#[derive(Clone, Debug)]
pub struct Turn {
    pub body: Vec<u8>,
    pub calls: Vec<CallSpec>,
    pub response_id: Option<String>,
    pub fault: Fault,
    pub chunks: Vec<usize>,
    pub pause_us: u64,
    pub malformed_json: bool,
    pub schema_invalid: bool,
    pub text_deltas: usize,
    /// the events of this turn were put in a fully random order (a call whose arguments only
    /// travel in deltas may then be completed with partial arguments)
    pub shuffled: bool,
}

impl Turn {
    pub fn reply(&self) -> Reply {
        match &self.fault {
            Fault::Http { status, with_body, echo } => {
                let body = if *with_body {
                    // hostile error bodies, derived deterministically from the turn's seeded parameters: short JSON,
                    // long text whose multi-byte characters straddle every plausible truncation limit, invalid
                    // UTF-8, an HTML page
                    let mut h = vec![(*status >> 8) as u8, *status as u8];
                    h.extend_from_slice(&self.pause_us.to_le_bytes());
                    for c in self.chunks.iter().take(8) {
                        h.extend_from_slice(&(*c as u64).to_le_bytes());
                    }
                    h.extend_from_slice(&(self.body.len() as u64).to_le_bytes());
                    let mut rng = crate::prng::Rng::new(crate::prng::fnv(&h));
                    match rng.below(6) {
                        0 | 1 => br#"{"error":{"message":"scripted failure","type":"invalid_request_error"}}"#.to_vec(),
                        2 | 3 => {
                            let limits = [64usize, 128, 255, 256, 500, 512, 1000, 1023, 1024, 1025, 2000, 2048, 4096, 8191, 8192, 10000, 16384];
                            let target = limits[rng.usize(limits.len())];
                            let lead = target.saturating_sub(rng.usize(5));
                            let mut b = "x".repeat(lead).into_bytes();
                            let fill = ["é", "中", "🚀", "ß→", "e\u{301}"][rng.usize(5)];
                            while b.len() < target + 64 {
                                b.extend_from_slice(fill.as_bytes());
                            }
                            b
                        }
                        4 => {
                            let mut b = br#"{"error":"bad bytes: "#.to_vec();
                            b.extend_from_slice(&[0xff, 0xfe, 0xc3, 0x28, 0xe2, 0x82, 0xf0, 0x9f]);
                            b.extend_from_slice(&rng.bytes(200));
                            b
                        }
                        _ => format!("<html><body><h1>{} Bad Gateway</h1>{}</body></html>", status, "<p>ü</p>".repeat(300)).into_bytes(),
                    }
                } else {
                    Vec::new()
                };
                let mut r = Reply::status(*status, body);
                r.echo_request = *echo;
                r
            }
            Fault::HeadersOnly => {
                let mut r = Reply::sse(self.body.clone());
                r.headers_only = true;
                r
            }
            Fault::EmptyBody => Reply::sse(Vec::new()),
            Fault::ResetAt(k) => {
                let mut r = Reply::sse(self.body.clone()).chunked(self.chunks.clone(), self.pause_us);
                r.reset_after = Some(*k);
                r
            }
            Fault::None | Fault::NoDone => Reply::sse(self.body.clone()).chunked(self.chunks.clone(), self.pause_us),
        }
    }

    /// The bytes the client can have received.
    pub fn served(&self) -> &[u8] {
        match &self.fault {
            Fault::Http { .. } | Fault::HeadersOnly | Fault::EmptyBody => &[],
            Fault::ResetAt(k) => &self.body[..(*k).min(self.body.len())],
            _ => &self.body,
        }
    }

    /// Completed function calls in the served bytes.
    pub fn emitted(&self) -> Vec<EmittedCall> {
        emitted_calls(self.served())
    }

    pub fn spec_for(&self, call_id: &str) -> Option<&CallSpec> {
        self.calls.iter().find(|c| c.call_id == call_id)
    }
}

#[derive(Clone, Debug)]
pub struct EmittedCall {
    pub call_id: String,
    pub name: String,
    pub output_index: u64,
    /// number of output_item.done events seen for this call id
    pub done_events: usize,
}

/// Independent SSE reading: distinct call ids of `response.output_item.done` function_call items
/// in complete events, ordered by (lowest) output_index, ties by first appearance.
pub fn emitted_calls(served: &[u8]) -> Vec<EmittedCall> {
    let text = String::from_utf8_lossy(served).to_string();
    let mut out: Vec<EmittedCall> = Vec::new();
    let mut rest = text.as_str();
    while let Some(pos) = rest.find("\n\n") {
        let block = &rest[..pos];
        rest = &rest[pos + 2..];
        let mut data = String::new();
        for line in block.split('\n') {
            if let Some(d) = line.strip_prefix("data:") {
                if !data.is_empty() {
                    data.push('\n');
                }
                data.push_str(d.trim_start());
            }
        }
        if data == "[DONE]" {
            break;
        }
        let Ok(v) = serde_json::from_str::<Value>(&data) else {
            continue;
        };
        if v.get("type").and_then(|x| x.as_str()) != Some("response.output_item.done") {
            continue;
        }
        let Some(item) = v.get("item") else { continue };
        if item.get("type").and_then(|x| x.as_str()) != Some("function_call") {
            continue;
        }
        let Some(call_id) = item.get("call_id").and_then(|x| x.as_str()).filter(|s| !s.is_empty()) else {
            continue;
        };
        let name = item.get("name").and_then(|x| x.as_str()).unwrap_or("").to_string();
        let oi = v.get("output_index").and_then(|x| x.as_u64()).unwrap_or(0);
        if let Some(e) = out.iter_mut().find(|e| e.call_id == call_id) {
            e.done_events += 1;
            e.output_index = e.output_index.min(oi);
        } else {
            out.push(EmittedCall { call_id: call_id.to_string(), name, output_index: oi, done_events: 1 });
        }
    }
    out.sort_by_key(|e| e.output_index); // stable
    out
}

#[derive(Clone, Debug)]
pub struct GenOpts {
    pub case: u64,
    pub run: u32,
    /// 1..: number of turns; the last one carries no calls (unless `forever`)
    pub turns: usize,
    pub max_calls: usize,
    /// allow duplicate-call-id classes (repeated done, two items with one call id)
    pub duplicates: bool,
    /// allow calls that make the follow-up request unrepresentable (long call id, bad name)
    pub unanswerable: bool,
    pub forever: bool,
    /// stream faults allowed in this run (last turn only, so that earlier turns have answers)
    pub final_fault: Fault,
    pub weird_events: bool,
    pub no_response_id_turn: Option<usize>,
}

fn split_points(rng: &mut Rng, s: &str, pieces: usize) -> Vec<String> {
    // split on char boundaries
    let chars: Vec<char> = s.chars().collect();
    if chars.is_empty() || pieces <= 1 {
        return vec![s.to_string()];
    }
    let mut cuts: Vec<usize> = (0..pieces - 1).map(|_| rng.usize(chars.len() + 1)).collect();
    cuts.sort();
    let mut out = Vec::new();
    let mut prev = 0;
    for c in cuts {
        out.push(chars[prev..c].iter().collect::<String>());
        prev = c;
    }
    out.push(chars[prev..].iter().collect::<String>());
    out
}

pub fn gen_call(rng: &mut Rng, o: &GenOpts, turn: u32, k: usize, kind: CallKind, emission: Emission) -> CallSpec {
    let token = format!("T{}r{}t{}k{}x{}", o.case, o.run, turn, k, rng.hex(8));
    let mut call_id = format!("c{}k{}", mark_turn(o.run, turn), k);
    let item_id = if emission == Emission::NoItemId {
        None
    } else {
        Some(format!("fc{}k{}", mark_turn(o.run, turn), k))
    };
    let file = ["a.txt", "b.txt", "sub/c.txt"][rng.usize(3)];
    let (name, args, tok): (String, String, Option<String>) = match kind {
        CallKind::WriteAppend => (
            "write".into(),
            json!({"path": file, "content": format!("{token}\n"), "append": true}).to_string(),
            Some(token),
        ),
        CallKind::BashEcho => (
            if rng.chance(1, 4) { "shell".into() } else { "bash".into() },
            json!({"command": format!("echo {token} >> b.txt"), "cwd": "."}).to_string(),
            Some(token),
        ),
        CallKind::BashExit3 => (
            "bash".into(),
            json!({"command": format!("echo {token} >> b.txt; echo oops 1>&2; exit 3"), "cwd": "."}).to_string(),
            Some(token),
        ),
        CallKind::ReadFile => ("read".into(), json!({"path": "a.txt"}).to_string(), None),
        CallKind::UnknownTool => ("nosuch_tool".into(), json!({"x": token}).to_string(), None),
        CallKind::MissingArg => ("write".into(), json!({"path": "a.txt"}).to_string(), None),
        CallKind::ArgsNotJson => (
            "write".into(),
            format!("{{\"path\":\"a.txt\",\"append\":true,\"content\":\"{token}"),
            Some(token),
        ),
        CallKind::LongCallId => {
            call_id = format!("{call_id}_{}", "L".repeat(70));
            (
                "write".into(),
                json!({"path": file, "content": format!("{token}\n"), "append": true}).to_string(),
                Some(token),
            )
        }
        CallKind::BadName => ("write now!".into(), json!({"path": "a.txt", "content": token}).to_string(), None),
    };
    CallSpec {
        call_id,
        item_id,
        output_index: 0,
        name,
        args,
        token: tok,
        kind,
        emission,
        shares_call_id: false,
    }
}

fn call_events(rng: &mut Rng, c: &CallSpec) -> Vec<Value> {
    let iid = c.item_id.as_deref();
    let oi = c.output_index;
    let item = |args: &str, status: &str| function_call_item(iid, &c.call_id, &c.name, args, status);
    let deltas = |rng: &mut Rng| -> Vec<Value> {
        let n = 1 + rng.usize(4);
        split_points(rng, &c.args, n)
            .into_iter()
            .map(|d| ev_args_delta(0, iid.unwrap_or(""), oi, &d))
            .collect()
    };
    match c.emission {
        Emission::Canonical | Emission::RepeatedDone => {
            let mut v = vec![ev_item_added(0, oi, item("", "in_progress"))];
            v.extend(deltas(rng));
            v.push(ev_args_done(0, iid.unwrap_or(""), oi, &c.args));
            v.push(ev_item_done(0, oi, item(&c.args, "completed")));
            if c.emission == Emission::RepeatedDone {
                v.push(ev_item_done(0, oi, item(&c.args, "completed")));
            }
            v
        }
        Emission::DeltasOnly => {
            let mut v = vec![ev_item_added(0, oi, item("", "in_progress"))];
            v.extend(deltas(rng));
            v.push(ev_item_done(0, oi, item("", "completed")));
            v
        }
        Emission::DoneOnly => vec![ev_item_done(0, oi, item(&c.args, "completed"))],
        Emission::AddedFull | Emission::NoItemId => vec![
            ev_item_added(0, oi, item(&c.args, "in_progress")),
            ev_item_done(0, oi, item(&c.args, "completed")),
        ],
        Emission::AddedOnly => {
            let mut v = vec![ev_item_added(0, oi, item("", "in_progress"))];
            v.extend(deltas(rng));
            v
        }
    }
}

/// Random merge of several ordered lists, keeping each list's own order.
fn interleave(rng: &mut Rng, mut lists: Vec<Vec<Value>>) -> Vec<Value> {
    let mut out = Vec::new();
    for l in lists.iter_mut() {
        l.reverse();
    }
    loop {
        let alive: Vec<usize> = (0..lists.len()).filter(|i| !lists[*i].is_empty()).collect();
        if alive.is_empty() {
            break;
        }
        let i = alive[rng.usize(alive.len())];
        out.push(lists[i].pop().unwrap());
    }
    out
}

pub struct TurnParts {
    pub calls: Vec<CallSpec>,
    pub text_deltas: usize,
    pub with_response_id: bool,
    pub fault: Fault,
    pub malformed_json: bool,
    pub schema_invalid: bool,
    pub shuffle_all: bool,
    pub sequential: bool,
    pub chunked: bool,
}

pub fn build_turn(rng: &mut Rng, run: u32, turn: u32, p: TurnParts) -> Turn {
    let rid = format!("resp_{}", mark_turn(run, turn));
    let mut lists: Vec<Vec<Value>> = Vec::new();
    for c in &p.calls {
        lists.push(call_events(rng, c));
    }
    if p.text_deltas > 0 {
        let words = ["alpha ", "beta ", "gamma ", "δelta ", "ok. ", "é", "\\n", "done"];
        lists.push(
            (0..p.text_deltas)
                .map(|_| ev_text_delta(0, "msg_1", words[rng.usize(words.len())]))
                .collect(),
        );
    }
    let mut middle: Vec<Value> = if p.sequential {
        lists.into_iter().flatten().collect()
    } else {
        interleave(rng, lists)
    };
    if p.shuffle_all {
        rng.shuffle(&mut middle);
    }
    let mut events: Vec<String> = Vec::new();
    let mut seq = 0u64;
    let mut push = |events: &mut Vec<String>, mut v: Value| {
        v["sequence_number"] = json!(seq);
        seq += 1;
        events.push(sse_event(&v));
    };
    if p.with_response_id {
        push(&mut events, ev_created(0, &rid));
    }
    for v in middle {
        push(&mut events, v);
    }
    if p.with_response_id {
        push(&mut events, ev_completed(0, &rid, json!([])));
    }
    if p.malformed_json {
        let at = rng.usize(events.len() + 1);
        events.insert(
            at,
            "event: response.output_text.delta\ndata: {\"type\":\"response.output_text.delta\", broken\n\n".to_string(),
        );
    }
    if p.schema_invalid {
        let at = rng.usize(events.len() + 1);
        let v = match rng.below(3) {
            0 => json!({"type":"response.bogus_event","sequence_number":999}),
            1 => json!({"type":"response.output_text.delta","delta":17}),
            _ => json!({"type":"response.output_item.added","sequence_number":998,"output_index":"x","item":{"type":"message"}}),
        };
        events.insert(at, sse_event(&v));
    }
    let mut body = events.concat();
    if p.fault != Fault::NoDone {
        body.push_str(&sse_done());
    }
    let body = body.into_bytes();
    let mut chunks = Vec::new();
    let mut pause_us = 0;
    if p.chunked {
        let mut left = body.len();
        let max = [16usize, 64, 300, 2000][rng.usize(4)];
        while left > 0 && chunks.len() < 150 {
            let n = (1 + rng.usize(max)).min(left);
            chunks.push(n);
            left -= n;
        }
        pause_us = [0u64, 0, 0, 40][rng.usize(4)];
    }
    Turn {
        body,
        calls: p.calls,
        response_id: if p.with_response_id { Some(rid) } else { None },
        fault: p.fault,
        chunks,
        pause_us,
        malformed_json: p.malformed_json,
        schema_invalid: p.schema_invalid,
        text_deltas: p.text_deltas,
        shuffled: p.shuffle_all,
    }
}

fn pick_kind(rng: &mut Rng, o: &GenOpts) -> CallKind {
    let r = rng.below(100);
    match r {
        0..=39 => CallKind::WriteAppend,
        40..=59 => CallKind::BashEcho,
        60..=66 => CallKind::BashExit3,
        67..=72 => CallKind::ReadFile,
        73..=79 => CallKind::UnknownTool,
        80..=85 => CallKind::MissingArg,
        86..=91 => CallKind::ArgsNotJson,
        92..=95 if o.unanswerable => CallKind::LongCallId,
        96..=99 if o.unanswerable => CallKind::BadName,
        _ => CallKind::WriteAppend,
    }
}

fn pick_emission(rng: &mut Rng, o: &GenOpts) -> Emission {
    let r = rng.below(100);
    match r {
        0..=29 => Emission::Canonical,
        30..=44 => Emission::DeltasOnly,
        45..=59 => Emission::DoneOnly,
        60..=71 => Emission::AddedFull,
        72..=81 => Emission::NoItemId,
        82..=87 => Emission::AddedOnly,
        88..=99 if o.duplicates => Emission::RepeatedDone,
        _ => Emission::Canonical,
    }
}

/// A whole conversation for one run.
pub fn gen_run(rng: &mut Rng, o: &GenOpts) -> Vec<Turn> {
    let mut turns = Vec::new();
    let n_turns = if o.forever { 40 } else { o.turns.max(1) };
    for t in 0..n_turns {
        let last = !o.forever && t + 1 == n_turns;
        let n_calls = if o.forever {
            1 + rng.usize(o.max_calls.max(1))
        } else if last {
            0
        } else {
            1 + rng.usize(o.max_calls.max(1))
        };
        let mut calls: Vec<CallSpec> = Vec::new();
        for k in 0..n_calls {
            let (kind, em) = if o.forever {
                (
                    if rng.bool() { CallKind::WriteAppend } else { CallKind::BashEcho },
                    if rng.bool() { Emission::Canonical } else { Emission::DoneOnly },
                )
            } else {
                (pick_kind(rng, o), pick_emission(rng, o))
            };
            calls.push(gen_call(rng, o, t as u32, k, kind, em));
        }
        // at least one completed call in a non-final turn, otherwise the conversation stops early
        if !last && !calls.is_empty() && calls.iter().all(|c| c.emission == Emission::AddedOnly) {
            calls[0].emission = Emission::Canonical;
        }
        // two items sharing one call id
        if o.duplicates && calls.len() >= 2 && rng.chance(1, 8) {
            let a = rng.usize(calls.len());
            let mut b = rng.usize(calls.len());
            if a == b {
                b = (a + 1) % calls.len();
            }
            if calls[a].kind != CallKind::LongCallId && calls[b].kind != CallKind::LongCallId {
                calls[b].call_id = calls[a].call_id.clone();
                calls[a].shares_call_id = true;
                calls[b].shares_call_id = true;
            }
        }
        // output_index: a random permutation of 1..=n (0 is the text message item)
        let mut idx: Vec<u64> = (1..=calls.len() as u64).collect();
        rng.shuffle(&mut idx);
        for (c, i) in calls.iter_mut().zip(idx) {
            c.output_index = i;
        }
        let shuffle_all = !o.forever && rng.chance(1, 8);
        if shuffle_all {
            // tool arguments must never be assembled from reordered fragments (a reordered shell
            // command or write request is a different, possibly destructive one): done carries them whole
            for c in calls.iter_mut() {
                if c.emission == Emission::DeltasOnly {
                    c.emission = Emission::Canonical;
                }
            }
        }
        let fault = if last { o.final_fault.clone() } else { Fault::None };
        let fault = if !last && !o.forever && rng.chance(1, 6) { Fault::NoDone } else { fault };
        let parts = TurnParts {
            calls,
            text_deltas: rng.usize(4),
            with_response_id: o.no_response_id_turn != Some(t),
            fault,
            malformed_json: o.weird_events && rng.chance(1, 5),
            schema_invalid: o.weird_events && rng.chance(1, 5),
            shuffle_all,
            sequential: rng.chance(1, 4),
            chunked: rng.chance(1, 2),
        };
        turns.push(build_turn(rng, o.run, t as u32, parts));
    }
    turns
}

/// A plain text turn (used as the fallback for unrouted / out-of-script requests).
pub fn fallback_body() -> Vec<u8> {
    let mut s = String::new();
    s.push_str(&sse_event(&ev_created(0, "resp_fallback")));
    s.push_str(&sse_event(&ev_text_delta(1, "msg_1", "fallback")));
    s.push_str(&sse_event(&ev_completed(2, "resp_fallback", json!([]))));
    s.push_str(&sse_done());
    s.into_bytes()
}

#[derive(Clone, Debug)]
pub struct Served {
    pub index: usize,
    pub run: Option<u32>,
    pub turn: Option<u32>,
    pub fallback: bool,
    pub at: Instant,
    /// upper bound of the time the reply needs to be written out
    pub reply_budget_ms: u64,
}

pub type Scripts = Arc<Mutex<HashMap<u32, Vec<Turn>>>>;

/// A provider that serves per-run scripts and remembers how it routed every request.
pub struct Scripted {
    pub provider: Provider,
    pub scripts: Scripts,
    pub served: Arc<Mutex<Vec<Served>>>,
}

impl Scripted {
    pub fn start() -> Scripted {
        let scripts: Scripts = Arc::new(Mutex::new(HashMap::new()));
        let served: Arc<Mutex<Vec<Served>>> = Arc::new(Mutex::new(Vec::new()));
        let s2 = scripts.clone();
        let v2 = served.clone();
        let provider = Provider::start(Arc::new(move |rec: &Recorded| {
            let routed = rec.json().as_ref().and_then(route_request);
            let mut reply = None;
            if let Some((run, turn)) = routed {
                if let Some(t) = s2.lock().unwrap().get(&run).and_then(|ts| ts.get(turn as usize)) {
                    reply = Some(t.reply());
                }
            }
            let fallback = reply.is_none();
            let reply = reply.unwrap_or_else(|| Reply::sse(fallback_body()));
            let budget = reply.delay_ms + (reply.chunks.len() as u64 * (reply.pause_us + 200)) / 1000 + 50;
            v2.lock().unwrap().push(Served {
                index: rec.index,
                run: routed.map(|r| r.0),
                turn: routed.map(|r| r.1),
                fallback,
                at: Instant::now(),
                reply_budget_ms: budget,
            });
            reply
        }));
        Scripted { provider, scripts, served }
    }

    pub fn set_run(&self, run: u32, turns: Vec<Turn>) {
        self.scripts.lock().unwrap().insert(run, turns);
    }

    pub fn served(&self) -> Vec<Served> {
        self.served.lock().unwrap().clone()
    }

    /// true when every reply handed out so far has had ample time to be written completely
    pub fn idle_for(&self, ms: u64) -> bool {
        let g = self.served.lock().unwrap();
        g.iter()
            .all(|s| s.at.elapsed().as_millis() as u64 > s.reply_budget_ms + ms)
    }

    pub fn served_len(&self) -> usize {
        self.served.lock().unwrap().len()
    }

    /// every request that arrived after the first `n`: (routing, recorded request)
    pub fn since(&self, n: usize) -> Vec<(Served, Recorded)> {
        let served = self.served();
        let reqs = self.provider.requests();
        let mut out = Vec::new();
        for s in served.into_iter().skip(n) {
            if let Some(r) = reqs.iter().rev().find(|r| r.index == s.index) {
                out.push((s, r.clone()));
            }
        }
        out.sort_by_key(|(s, _)| s.index);
        out
    }

    /// requests of one run in arrival order: (turn, recorded request)
    pub fn requests_of(&self, run: u32) -> Vec<(u32, Recorded)> {
        let served = self.served();
        let reqs = self.provider.requests();
        let mut out = Vec::new();
        for s in served {
            if s.run == Some(run) {
                if let Some(r) = reqs.iter().find(|r| r.index == s.index) {
                    out.push((s.turn.unwrap_or(0), r.clone()));
                }
            }
        }
        out.sort_by_key(|(_, r)| r.index);
        out
    }
}

/// Independent model of "does the declared tool_choice allow a function call named `name`".
pub fn choice_allows(declared: &Value, name: &str) -> bool {
    match declared {
        Value::String(s) => s != "none",
        Value::Object(o) => match o.get("type").and_then(|x| x.as_str()) {
            Some("function") => o.get("name").and_then(|x| x.as_str()) == Some(name),
            Some("allowed_tools") => {
                if o.get("mode").and_then(|x| x.as_str()) == Some("none") {
                    return false;
                }
                o.get("tools")
                    .and_then(|x| x.as_array())
                    .map(|a| {
                        a.iter().any(|t| {
                            t.get("type").and_then(|x| x.as_str()) == Some("function")
                                && t.get("name").and_then(|x| x.as_str()) == Some(name)
                        })
                    })
                    .unwrap_or(false)
            }
            _ => true,
        },
        Value::Null => true,
        _ => true,
    }
}

/// All regular files below `ws` (the `.rip` directory is skipped) as one text: "<path>\n<content>\n"…
/// Token occurrences are counted on it with `str::matches`.
pub fn workspace_text(ws: &std::path::Path) -> String {
    let mut out = String::new();
    for (path, bytes) in crate::fixture::tree_bytes(ws, &[".rip"]) {
        out.push_str(&path);
        out.push('\n');
        out.push_str(&String::from_utf8_lossy(&bytes));
        out.push('\n');
    }
    out
}
