#[doc(hidden)]
pub mod __private228 {
    #[doc(hidden)]
    pub use crate::private::*;
}
