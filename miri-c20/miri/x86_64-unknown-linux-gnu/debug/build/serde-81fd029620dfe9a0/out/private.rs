#[doc(hidden)]
pub mod __private228 {
    #[doc(hidden)]
    pub use crate::private::*;
}
use serde_core::__private228 as serde_core_private;
