#!/bin/bash
# Builds the harness (and with it the /repo crates with the `verif` feature, from /repo's current
# working tree) and the real `rip` binary with hooks. No-ops when fresh. Offline.
set -u
export CARGO_NET_OFFLINE=true
cd /verif/harness || exit 2
cp -f /repo/Cargo.lock /verif/harness/Cargo.lock 2>/dev/null
LOG=/verif/target/build.log
mkdir -p /verif/target
(
  flock 9
  CARGO_TARGET_DIR=/verif/target cargo build --release --offline >"$LOG" 2>&1 || { tail -40 "$LOG"; exit 2; }
  if [ "${1:-}" = "--with-rip" ]; then
    cargo build --release --offline -p rip-cli --features verif --manifest-path /repo/Cargo.toml \
      --target-dir /verif/target/repo >>"$LOG" 2>&1 || { tail -40 "$LOG"; exit 2; }
  fi
) 9>/verif/target/.build.lock
