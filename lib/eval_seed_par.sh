#!/bin/bash
# usage: eval_seed_par.sh <seed-dir-name e.g. C01-r4> [tier] [seed]
# Evaluates one seeded change WITHOUT touching /repo: a scratch git worktree of /repo gets the patch, a
# scratch copy of the harness is pointed at that worktree and built into a scratch target dir, the
# property's check runs from there (evidence / replays go to the scratch root), everything is removed.
# Safe to run several at once. Prints "RESULT <name> CAUGHT|MISSED|rc=N  <first signatures>".
# (The registered checks always run from /verif against /repo itself; this is a development tool.)
set -u
NAME=$1; TIER=${2:-quick}; SEED=${3:-1}
PROP=${NAME%%-*}
PATCH=/verif/seeded/$NAME/patch.diff
S=/tmp/ev/$NAME
export CARGO_NET_OFFLINE=true
rm -rf $S; mkdir -p $S/root/target $S/harness
git -C /repo worktree add --detach -f $S/repo HEAD >/dev/null 2>&1 || { echo "RESULT $NAME rc=worktree"; exit 2; }
cleanup() { git -C /repo worktree remove --force $S/repo >/dev/null 2>&1; rm -rf $S; }
if [ "$PATCH" != "/verif/seeded/NONE/patch.diff" ]; then
  git -C $S/repo apply $PATCH || { echo "RESULT $NAME rc=patch-does-not-apply"; cleanup; exit 2; }
fi
# the harness as committed (HEAD), not the working tree: edits in progress must not break an evaluation
git -C /verif archive HEAD harness/src harness/Cargo.toml | tar -x -C $S
sed -i "s#/repo/crates#$S/repo/crates#g" $S/harness/Cargo.toml
cp /repo/Cargo.lock $S/harness/Cargo.lock
cp /verif/known_findings.json $S/root/
( cd $S/harness && CARGO_TARGET_DIR=$S/target cargo build --release --offline >$S/build.log 2>&1 ) || { echo "RESULT $NAME rc=build"; tail -20 $S/build.log; cleanup; exit 2; }
case "$PROP" in C05|C18|C19|C20|C02)
  cargo build --release --offline -p rip-cli --features verif --manifest-path $S/repo/Cargo.toml --target-dir $S/target/repo >>$S/build.log 2>&1 || { echo "RESULT $NAME rc=build-rip"; cleanup; exit 2; }
  export RV_RIP_BIN=$S/target/repo/release/rip ;;
esac
mkdir -p /verif/target/seed_par
OUT=/verif/target/seed_par/$NAME.out
( cd $S/root && VERIF_ROOT=$S/root VERIF_REPLAY_DIR=$S/root/replays VERIF_SEED=$SEED $S/target/release/rv $PROP --tier $TIER --out $S/root/ev.json ) >$OUT 2>&1
rc=$?
sigs=$(grep "^  what" $OUT | grep -o "signature=[^ ]*" | sort -u | head -4 | tr '\n' ' ' | cut -c1-400)
if [ $rc -eq 1 ]; then echo "RESULT $NAME CAUGHT (tier=$TIER seed=$SEED) $sigs"
elif [ $rc -eq 0 ]; then echo "RESULT $NAME MISSED (tier=$TIER seed=$SEED)"
else echo "RESULT $NAME rc=$rc"; tail -3 $OUT; fi
cleanup
