#!/bin/bash
# usage: verify_seed2.sh <lane> <dir with patch.diff + demo_test.diff> <cargo test args...>
# Scratch worktree /tmp/vs-<lane>/repo (created on demand, target dir kept per lane for incremental builds):
# the demonstration must PASS on the unchanged tree and FAIL with patch.diff applied. Prints VERIFIED / NOT-VERIFIED.
L=$1; D=$2; shift 2
WT=/tmp/vs-$L/repo
[ -d $WT ] || git -C /repo worktree add --detach -f $WT HEAD >/dev/null 2>&1
cd $WT && git checkout -q -- . && git clean -qfd
export CARGO_TARGET_DIR=/tmp/vs-$L/target CARGO_NET_OFFLINE=true
git apply $D/demo_test.diff || { echo "NOT-VERIFIED $D demo does not apply"; exit 1; }
timeout 1800 cargo test --offline "$@" > /tmp/vs-$L/without.log 2>&1; rc0=$?
p0=$(grep -E "^test result" /tmp/vs-$L/without.log | grep -v " 0 passed; 0 failed" | head -3 | tr '\n' ' ')
git checkout -q -- . && git clean -qfd
git apply $D/patch.diff && git apply $D/demo_test.diff || { echo "NOT-VERIFIED $D patch+demo do not apply"; exit 1; }
timeout 1800 cargo test --offline "$@" > /tmp/vs-$L/with.log 2>&1; rc1=$?
p1=$(grep -E "^test result|panicked at" /tmp/vs-$L/with.log | grep -v " 0 passed; 0 failed" | head -3 | tr '\n' ' ' | cut -c1-300)
git checkout -q -- . && git clean -qfd
if [ $rc0 -eq 0 ] && [ $rc1 -ne 0 ] && echo "$p0" | grep -q "[1-9][0-9]* passed"; then echo "VERIFIED $D | without: $p0 | with: $p1"; else echo "NOT-VERIFIED $D rc0=$rc0 rc1=$rc1 | without: $p0 | with: $p1"; fi
