#!/bin/bash
# usage: verify_seed.sh <seed_demo_dir> <cargo test args...>
# In the scratch worktree /tmp/verify-wt: demo must FAIL with patch.diff applied and PASS without it.
D=$1; shift
WT=/tmp/verify-wt
cd $WT && git checkout -q -- . && git clean -qfd -e target
export CARGO_TARGET_DIR=$WT/target
DEMO=$(ls $D/*demo*.diff 2>/dev/null | head -1)
echo "== without change"; git apply $DEMO && timeout 1500 cargo test --offline "$@" 2>&1 | grep -E "^test result|FAILED|panicked at" | head -5
git checkout -q -- . && git clean -qfd -e target
echo "== with change"; git apply $D/patch.diff && git apply $DEMO && timeout 1500 cargo test --offline "$@" 2>&1 | grep -E "^test result|FAILED|panicked at" | head -6
git checkout -q -- . && git clean -qfd -e target
