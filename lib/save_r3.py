#!/usr/bin/env python3
# one-off helper: copies the round-3 seeded changes from the staging dir into seeded/<id>-r3/ with a meta.json
import json, os, shutil, sys
SRC = sys.argv[1] if len(sys.argv) > 1 else "/tmp/r3"
T = {
 "C01": ("provider pipe calls finish() after emitting the transport-error frame: a frame flushed afterwards reuses the error frame's seq",
         "provider connection breaks exactly between CR and LF of the blank CRLF line ending an SSE event",
         "cargo test --offline -p ripd --lib seed_demo_c01 -- --skip pty"),
 "C02": ("shared in-flight-job helper closes jobs left over from before a restart by appending job_ended; the read-only compaction status call uses that helper",
         "unfinished job frame + authority restart + compaction-status call",
         "cargo test --offline -p ripd --lib seed_demo_c02 -- --skip pty"),
 "C03": ("payload nesting cap raised from 100 to 126 (reader limit minus the frame envelope): the session snapshot wraps all frames in one more array level",
         "provider payload / tool arguments nested exactly 126 levels: live and log agree, the snapshot is unreadable",
         "cargo test --offline -p ripd --lib seed_demo_c03 -- --skip pty"),
 "C04": ("checkpoint index path collapses equal to_seq with sort + dedup_by_key (oldest frame wins); the truth path keeps the latest",
         "a cut point summarised twice, hierarchical selection, checkpoint index present",
         "cargo test --offline -p ripd --lib seed_demo_c04 -- --skip pty"),
 "C05": ("backward log scan overwrites the carried tail when a 64 KiB window holds no newline (line spanning three or more windows is skipped)",
         "last frame of a thread >= 128 KiB, restart, one more append: the huge frame's seq is issued again",
         "cargo test --offline -p ripd --lib seed_demo_c05 -- --skip pty"),
 "C06": ("emit_event releases the history lock before publishing; attach() takes history + subscription together; the live-side seq filter is dropped",
         "subscriber attaches between record and publish of frame n: n arrives from history and live (duplicate)",
         "cargo test --offline -p ripd --lib --features verif seed_demo_c06 -- --skip pty"),
 "C07": ("wrapper around the summarizer job appends job_ended{failed} on Err although the body's own error arm already did",
         "a spawned compaction job that fails while running a cut (artifact store unwritable, checkpoint append fails, stale ordinal sidecar)",
         "cargo test --offline -p ripd --lib seed_demo_c07 -- --skip pty"),
 "C08": ("far-anchor window scan capped at 2 x message limit decoded frames per pass",
         "anchor > 8 MiB before the sidecar tail, >= 16 messages before the cut, run_ended frames of older slow runs inside the window",
         "cargo test --offline -p ripd --lib seed_demo_c08 -- --skip pty"),
 "C09": ("base-checkpoint lookup on the cache path uses to_seq <= cut instead of < cut: a second summary of the same cut is based on the first",
         "two jobs for one cut point (second spawned before the first job's checkpoint exists, run after it)",
         "cargo test --offline -p ripd --lib seed_demo_c09 -- --skip pty"),
 "C10": ("from_seq range check compares with the frame count instead of head_seq: from_seq == head + 1 is accepted",
         "branch / handoff with from_seq exactly one past the head",
         "cargo test --offline -p ripd --lib seed_demo_c10 -- --skip pty"),
 "C11": ("task's workspace-lock acquire races with its cancel signal in a select!: a task cancelled while queued runs without the lock (and the cancel is consumed)",
         "shell task queued behind another mutation, cancel arriving during the wait",
         "cargo test --offline -p ripd --lib seed_demo -- --skip pty"),
 "C12": ("per-patch text cache of rewritten files is not invalidated by Move to",
         "one patch: Update P + Move to Q, Add File P, Update P",
         "cargo test --offline -p rip-workspace seed_demo"),
 "C13": ("rewind validates stored manifest paths only in the exists:true branch",
         "manifest planted inside the store through the write tool with a '..' entry marked exists:false, then rewind by id: deletes a file outside the root",
         "cargo test --offline -p rip-tools --test seed_c13_demo"),
 "C14": ("create_checkpoint hard-links files >= 64 KiB into the store instead of copying",
         "covered file >= 64 KiB edited in place (patch update, append, atomic:false) before the rewind",
         "cargo test --offline -p rip-tools --test seed_c14_demo"),
 "C15": ("output_text_delta derivation returns early when the SSE event name differs from response.output_text.delta",
         "a text delta whose event: name differs from its payload type",
         "cargo test --offline -p rip-provider-openresponses --test seed_demo_c15"),
 "C16": ("tool-call bound counts only calls the tool choice allows",
         "restricting tool choice + provider that keeps calling a barred tool (> 32 calls)",
         "cargo test --offline -p ripd --lib seed_demo -- --skip pty"),
 "C17": ("pump joins bounded by a 1 s grace after the shell exits; a pump still reading is detached and keeps emitting",
         "pipes-mode task whose shell exits while a descendant holds stdout open > 1 s and writes later",
         "cargo test --offline -p ripd --lib seed_demo -- --skip pty"),
 "C18": ("client-side cleanup re-reads lock.json and uses that record's pid as the expected pid (the guard compares the lock with itself)",
         "meta.json of a dead pid next to lock.json of a live pid, a rip client recovering",
         "cargo test --offline -p rip-cli --bin rip seed_demo"),
 "C19": ("JSONC parse errors quote the offending source line; the text reaches GET /config/doctor and rip config doctor",
         "a config layer that fails to parse with the secret on the reported line",
         "cargo test --offline -p ripd --lib config_doctor_never_echoes -- --skip pty"),
 "C20": ("cached active-task counter with unchecked subtraction; a status-only task row is never counted",
         "tool_task_status (queued/running) for a task id whose spawn frame was never seen, then a terminal status or late spawn",
         "cargo test --offline -p rip-tui --test seed_c20_orphan_task_status"),
}
RES = json.load(open("/verif/lib/r3_results.json")) if os.path.exists("/verif/lib/r3_results.json") else {}
for pid, (change, needs, cmd) in T.items():
    d = f"/verif/seeded/{pid}-r3"
    os.makedirs(d, exist_ok=True)
    files = []
    for f in sorted(os.listdir(f"{SRC}/{pid}")):
        if f.endswith(".log") or f.endswith(".out"):
            continue
        shutil.copy(f"{SRC}/{pid}/{f}", f"{d}/{f}")
        if "demo" in f:
            files.append(f)
    res = RES.get(pid, {})
    meta = {
        "property": pid, "round": 3, "change": change, "needs_to_manifest": needs,
        "demonstration": {"files": files, "command": cmd,
                          "confirmed": "in scratch worktree /tmp/verify-wt with lib/verify_seed.sh: demo passes on the unchanged tree and fails with patch.diff applied"},
        "check_run": f"lib/eval_seed.sh {pid} /verif/seeded/{pid}-r3/patch.diff quick 1",
        "result": res.get("result", "pending"),
        "caught_by_signature": res.get("sig", ""),
        "base_commit": "75b3f51",
    }
    json.dump(meta, open(f"{d}/meta.json", "w"), indent=1)
print("saved", len(T))
