#!/usr/bin/env python3
# one-off helper: copies the round-3 seeded changes from the staging dir into seeded/<id>-r4/ with a meta.json
import json, os, shutil, sys
SRC = sys.argv[1] if len(sys.argv) > 1 else "/tmp/r4"
T = {
 "C01": ("restart-time numbering (load_next_seq_for) reads the per-thread sidecar before the truth log",
         "a thread's sidecar behind the log without a dirty marker, the newest log frame on another thread, restart, append to the lagging thread",
         "cargo test --offline -p ripd --lib seed_c01 -- --skip pty"),
 "C02": ("truth-log fallback of the cut points' already-checkpointed marking uses checkpoint_to_seq < to_seq (off by one)",
         "cache directory unusable (continuity_streams is a regular file) + a cut point already checkpointed + a repeated auto-compaction (no-op)",
         "cargo test --offline -p ripd --lib seed_c02 -- --skip pty"),
 "C03": ("pipes task joins its output readers with a 1.5 s timeout and moves on; the detached reader keeps emitting after the snapshot",
         "task whose command exits while a descendant keeps stdout open and writes > 1.5 s later",
         "cargo test --offline -p ripd --lib seed_demo_task_snapshot -- --skip pty"),
 "C04": ("latest-checkpoint lookup in the checkpoint sidecar returns the first fit of a newest-first scan (assumes cuts only move forward)",
         "an older cut point summarised after a newer one, sidecar intact",
         "cargo test --offline -p ripd --lib seed_demo_latest_checkpoint -- --skip pty"),
 "C05": ("start-up reconciliation trusts the dirty markers alone (tail comparison with the log dropped)",
         "crash between the log flush and the creation of the marker, restart, read before the next append",
         "cargo test --offline -p ripd --lib seed_c05 -- --skip pty"),
 "C06": ("replay_events releases the append mutex before the log replay + sidecar rebuild",
         "thread sidecar missing, an append inside the rebuild's read-to-rename window, an attach before the next append",
         "cargo test --offline -p ripd --lib seed_c06 -- --skip pty"),
 "C07": ("stateful tool loop appends a provider-cursor update before running the tools (second one after completion)",
         "thread-attached prompt run, stateless_history=false, response with id + function call, tool taking the workspace lock",
         "cargo test --offline -p ripd --lib seed_demo_c07 -- --skip pty"),
 "C08": ("incremental append to the messages+runs sidecar skips run_ended frames whose reason is not completed",
         "an earlier run that streamed text and failed, then a later compile from the warm sidecar vs rebuilt caches",
         "cargo test --offline -p ripd --lib seed_demo_c08 -- --skip pty"),
 "C09": ("message window resolved before the base summary is read: an unreadable base is labelled bootstrap but the delta still starts after it",
         "base checkpoint's summary blob deleted / corrupt, more messages, auto-compaction",
         "cargo test --offline -p ripd --lib seed_demo_c09 -- --skip pty"),
 "C10": ("branch / handoff take the head seq from the in-memory append counter, the events from an earlier lock-free replay",
         "an append to the source thread between the replay and the head read",
         "cargo test --offline -p ripd --lib seed_demo_c10 -- --skip pty"),
 "C11": ("shell tool moves child.wait() onto a spawned reaper task: a timeout drops only the join handle, the command lives on",
         "bash/shell call whose timeout fires while the command is still running and writes afterwards, another mutation after the timeout",
         "cargo test --offline -p rip-tools --test seed_demo_c11_timeout"),
 "C12": ("Update writes through <stem>.tmp + rename (deterministic staging name, not in the undo list)",
         "an unrelated file named like the staging file next to the updated file, or added earlier in the same patch",
         "cargo test --offline -p rip-workspace --test seed_demo_c12_tmp_sibling"),
 "C13": ("store-component validation counts path components in a loop: the root component of an absolute id passes",
         "an absolute session id (create) or checkpoint id (rewind)",
         "cargo test --offline -p rip-workspace --test seed_c13_store_ids"),
 "C14": ("apply_patch tool trims the patch text; the auto-checkpoint file list is parsed from the raw text at another site",
         "patch text with white space before *** Begin Patch or after *** End Patch: edit without checkpoint",
         "cargo test --offline -p rip-tools --test seed_c14_patch_envelope"),
 "C15": ("compat validation profile: the id-normalised copy of the payload is used for the frame too",
         "stateless history (compat profile) + provider events that omit item ids",
         "cargo test --offline -p rip-provider-openresponses --test seed_c15_payload_unchanged"),
 "C16": ("request validation checks input items shallowly and removes them before the JSON schema runs",
         "provider function call with a call_id longer than 64 characters (or empty): the invalid follow-up is sent",
         "cargo test --offline -p ripd --lib seed_c16 -- --skip pty"),
 "C17": ("task log writer backs off to a character boundary at the artifact cap without recording that the cap was hit",
         "output larger than the cap, the cap inside a multi-byte character, a later pipe read: stored output has a hole",
         "cargo test --offline -p ripd --lib seed_c17 -- --skip pty"),
 "C18": ("serve drops the authority lock when shutdown starts, then drains in-flight requests for up to 2 s",
         "SIGTERM while a request is in flight and a second authority starting within the drain window",
         "cargo test --offline -p ripd --test seed_c18_shutdown_release"),
 "C19": ("config doctor gains an api_key_hint (first 4 + last 4 characters, middle starred)",
         "a key of 8 characters or fewer: the hint is the whole key",
         "cargo test --offline -p ripd --lib seed_c19 -- --skip pty"),
 "C20": ("selection cursor parked with Ord::clamp(first_seq, last_seq) after an eviction",
         "follow off, full window, selected frame evicted, newest held seq lower than the oldest (mixed streams): panic",
         "cargo test --offline -p rip-tui --test seed_c20_mixed_streams"),
}
RES = json.load(open("/verif/lib/r4_results.json")) if os.path.exists("/verif/lib/r4_results.json") else {}
for pid, (change, needs, cmd) in T.items():
    d = f"/verif/seeded/{pid}-r4"
    os.makedirs(d, exist_ok=True)
    files = []
    for f in sorted(os.listdir(f"{SRC}/{pid}")):
        if f.endswith(".log") or f.endswith(".out") or f.endswith(".sh"):
            continue
        shutil.copy(f"{SRC}/{pid}/{f}", f"{d}/{f}")
        if "demo" in f:
            files.append(f)
    res = RES.get(pid, {})
    meta = {
        "property": pid, "round": 4, "change": change, "needs_to_manifest": needs,
        "demonstration": {"files": files, "command": cmd,
                          "confirmed": "in scratch worktree /tmp/verify-wt with lib/verify_seed.sh: demo passes on the unchanged tree and fails with patch.diff applied"},
        "check_run": f"lib/eval_seed.sh {pid} /verif/seeded/{pid}-r4/patch.diff quick 1",
        "result": res.get("result", "pending"),
        "caught_by_signature": res.get("sig", ""),
        "base_commit": "6daec20",
    }
    json.dump(meta, open(f"{d}/meta.json", "w"), indent=1)
print("saved", len(T))
