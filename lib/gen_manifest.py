#!/usr/bin/env python3
"""Generates /verif/MANIFEST.json from the table below (keeps it valid and in one place)."""
import json, subprocess, sys

HOOK_COMMITS = subprocess.run(["git","-C","/repo","log","--format=%H %s"],capture_output=True,text=True).stdout.splitlines()
HOOK_COMMITS = [l.split()[0] for l in HOOK_COMMITS if " verif:" in " "+l.split(" ",1)[1] or l.split(" ",1)[1].startswith("verif")]

# id: (built, level, technique, text, note)
T = {
 "C01": (True, "exploration", "runtime monitoring: offline checker over the recorded event log (per-stream order, exactly-once of acknowledged ids, sidecar==log) on seeded concurrent stress histories with injected delays at hook points",
   "Held on N observed concurrent histories (2-16 writer threads, sessions and tasks through the real router, restarts) with delay injection inside the seq->append window; a narrowed critical section produces a duplicate seq within one history. Not exhaustive over schedules.",
   "Trusts the harness, serde_json, that hook points only change timing; schedules limited to what OS scheduling + injected delays produce."),
 "C04": (True, "fault_enumeration", "runtime monitoring: differential oracle (answers with caches as found vs caches removed, plus raw-log reference for replay/cut points) over an enumeration of cache-fault scripts x query set; termination decided by counting cache.scan hook ticks per query (step budget)",
   "Every (cache file class x fault kind x position) single fault is injected into seeded histories (with further appends and restarts), then random multi-fault scripts on the index files, plus directed threads beyond every tail window (>10^4 frames, >8 MiB sidecar, dense non-message frames); each of ~35 queries is compared as-found vs no-cache. Known design gap (stale well-formed sidecars are believed) is listed in known_findings.json by (query, file, fault class, position); everything else must agree.",
   "Reference = the no-cache path of the same code (replay and cut points are additionally checked against an independent raw-log model); termination is only judged for loops that reach the cache.scan hook."),
 "C15": (True, "exploration", "runtime monitoring: metamorphic oracle (frames identical across all chunkings of one body) + reference SSE parser, on the public decoder API (every split position) and end to end against a scripted TCP provider with the sse.chunk hook recording the partitions really delivered",
   "Millions of partitions of generated SSE texts through SseDecoder/EventFrameMapper (every single split for short streams, 2-splits, char-at-a-time, random) and thousands of real session runs receiving the same body under different TCP chunkings incl. splits inside multi-byte characters, CR|LF, field names and invalid UTF-8; evidence counts the distinct partitions observed at the hook.",
   "WHATWG-style reference restricted to documented SSE subset; end-to-end part explores the partitions TCP/hyper actually deliver."),
 "C05": (True, "fault_enumeration", "runtime monitoring: crash-point enumeration by imaging (hook handler copies data dir + workspace .rip at every write boundary), each image restarted with the real engine and judged by validated replay, raw-log parser, exactly-once of acknowledged ids, further appends, and a differential of sampled queries vs the no-cache path",
   "Every hit of every crash point (log append enter/locked/body/newline/flush, each sidecar/index/artifact/snapshot/index.json write and rename, sidecar rebuild steps) of every operation kind of seeded sequential workloads (incl. frames larger than the 8 KiB writer buffer, compaction jobs, branch/handoff, a routed session) is imaged and restarted; ~500-1500 images per quick run.",
   "Process-crash model (completed write(2)s visible, no power loss); a directory copy at a hook equals what a kill leaves; sequential workload."),
 "C09": (True, "exploration", "runtime monitoring: reference-model oracle rebuilt from the raw event log (cut points, plans, job brackets, checkpoint coverage) over seeded histories and parameter sweeps, byte-diff of the log around every call (noop/dry-run add nothing), fork-and-repeat determinism check, concurrent auto/schedule stress with injected delays",
   "Thousands of cut-point/status/auto/schedule/manual-checkpoint calls per run across stride/limit/max_new/execute/dry_run/block_on_inflight values incl. 0, 1 and larger than the thread, judged against a raw-log truth model; summary artifacts read back and coverage checked; same request on two forks gives the same summary text; 2-8 concurrent callers with noise.",
   "Truth model follows compaction.md/ADR-0011 as read from the docs; schedules limited to OS scheduling + injected delays."),
 "C10": (True, "exploration", "runtime monitoring: byte-diff of the event log around every branch/handoff call judged against a raw-log lineage model (ADR-0009 cut resolution), over seeded parent histories x selector classes x summary classes, through both the store API and the HTTP routes",
   "Thousands of branch/handoff calls per run: parent never touched, child opens with created+lineage frames, recorded cut equals the model, invalid selectors rejected with nothing appended, handoff summary resolvable, next child append gets seq 2 (also across restart).",
   "Sequential only; model follows ADR-0009 as read."),
 "C18": (True, "fault_enumeration", "runtime monitoring: holder-set invariant monitor on the real recovery loop under driven rendezvous schedules at auth.* hook points and seeded noise, from every leftover state, plus multi-process rounds of the real rip serve/rip CLI binaries (with injected delays and aborts) observed by liveness + endpoint probes",
   "14 leftover states x 15 directed read-then-rename schedules + noise cases in-process (|holders|<=1, lock.json always carries the holder's record, live authority never displaced, dead-authority store usable again), and 2-12 real processes racing per round with kill -9 of the winner. Confirmed design-level races are listed as known findings keyed by schedule; live-state and unattributed violations always fail.",
   "In-process contenders share one pid; attribution uses hook-trace order; the real binary is built from /repo with the verif feature."),
 "C19": (True, "exploration", "runtime monitoring: black-box canary search on the real binary - a fresh rip serve per configuration next to a scripted provider that proves the secret was sent; every byte of data dir, workspace, HTTP/SSE responses, process output and CLI output is searched for the canary in raw/base64/hex/percent/JSON-escaped forms",
   "~200 configurations per quick run: 15 ways of supplying the secret (every config layer, env indirection, env overrides, header values, per-request overrides, rip run --provider) x 7 run outcomes (success with tools, tool failure, 401/500 echoing the request, reset, refused, invalid follow-up) with request dumping off/on/capped; doctor output checked for presence+source only.",
   "Only the listed encodings are searched; tool commands that print the authority's own environment are excluded."),
 "C20": (True, "exploration", "runtime monitoring: invariant assertions after every TuiState::update (catch_unwind, overflow checks on) over generated frame sequences of all 38 frame types with hostile seq/timestamp/text, determinism by double fold and clone-then-suffix, render sweep on TestBackend, and the real rip headless renderers driven by a fake authority",
   "Thousands of frame scripts per run (gaps, repeats, decreasing and extreme seqs, several streams, multi-byte text at every truncation boundary, all capacity settings), millions of lookup probes (returned frame must carry the asked seq), hundreds of thousands of renders incl. every terminal size 1..130 x 1..30, and ~150 real CLI runs compared across chunkings.",
   "Bounds judged are the configured ones (max_frames, max_output_bytes, 8 KiB previews); Miri pass is thorough-tier only and small."),
}
NOT_BUILT_REASON = "monitor not built yet in this round (work in progress; see DESIGN.md section 3 for the design)"

def main():
    props=[json.loads(l)["id"] for l in open("/verif/properties.jsonl")]
    checks=[]; na=[]
    for pid in props:
        ent=T.get(pid)
        if not ent or not ent[0]:
            na.append({"property_id":pid,"reason":NOT_BUILT_REASON}); continue
        _,level,tech,text,note=ent
        checks.append({
          "property_id":pid,
          "quick_cmd":f"./check {pid} --tier quick",
          "thorough_cmd":f"./check {pid} --tier thorough",
          "evidence_file":f"/verif/evidence/{pid}.json",
          "replay_cmd_template":f"./check {pid} --replay {{path}}",
          "engine":"rv",
          "level_claimed":{"category":level,"text":text,"design_ref":f"DESIGN.md §3 {pid}"},
          "level_note":note,
          "technique":tech,
        })
    m={
      "version":1,
      "setup_cmd":"lib/build.sh --with-rip",
      "hooks":{
        "guard":"cargo feature `verif` (rip-kernel/verif, forwarded by rip-log, ripd, rip-cli); off by default",
        "enable":"harness depends on /repo/crates/* by path with features=[\"verif\"]; real binary: cargo build --release -p rip-cli --features verif --manifest-path /repo/Cargo.toml --target-dir /verif/target/repo",
        "baseline_off_cmd":"/verif/lib/baseline_off.sh",
        "source_commits":HOOK_COMMITS,
        "add_only":True,
      },
      "engines":[{"name":"rv","path":"/verif/harness","serves_properties":[c["property_id"] for c in checks],
                  "kind_free_text":"Rust harness linking the real crates with hook points on; seeded workloads, fault/schedule injection, offline oracles over recorded histories"}],
      "checks":checks,
      "not_applicable":na,
      "notes":"Technique family: runtime monitoring and sanitizers only. exit 0 held / 1 VIOLATION / 2 INCONCLUSIVE. VERIF_SEED and VERIF_TIER honoured. Known findings: /verif/known_findings.json.",
    }
    json.dump(m,open("/verif/MANIFEST.json","w"),indent=1)
    try:
        import jsonschema
        jsonschema.validate(m,json.load(open("/root/.vp/MANIFEST.schema.json")))
        print("MANIFEST valid;",len(checks),"checks;",len(na),"not yet claimed")
    except ImportError:
        print("written (jsonschema not available for validation)")
if __name__=="__main__": main()
