#!/usr/bin/env python3
"""Generates /verif/MANIFEST.json from the table below (keeps it valid and in one place)."""
import json, subprocess, sys

HOOK_COMMITS = subprocess.run(["git","-C","/repo","log","--format=%H %s"],capture_output=True,text=True).stdout.splitlines()
HOOK_COMMITS = [l.split()[0] for l in HOOK_COMMITS if " verif:" in " "+l.split(" ",1)[1] or l.split(" ",1)[1].startswith("verif")]

# id: (built, level, technique, text, note)
T = {
 "C01": (True, "exploration", "runtime monitoring: offline checker over the recorded event log (per-stream order, exactly-once of acknowledged ids, sidecar==log) on seeded concurrent stress histories with injected delays at hook points",
   "Held on N observed concurrent histories (2-16 writer threads, sessions and tasks through the real router, restarts; half of the histories with a scripted hostile provider - framings x faults x mid-body resets at every byte around an event terminator - after a deterministic grid of those) with delay injection inside the seq->append window; tasks whose pumps outlive the command while clients re-attach under a delayed history snapshot; a narrowed critical section produces a duplicate seq within one history. Not exhaustive over schedules.",
   "Trusts the harness, serde_json, that hook points only change timing; schedules limited to what OS scheduling + injected delays produce."),
 "C04": (True, "fault_enumeration", "runtime monitoring: differential oracle (answers with caches as found vs caches removed, plus raw-log reference models for replay, cut points, status, cursor/selection status and the checkpoint selection of compile) over an enumeration of cache-fault scripts x query set; termination decided by counting cache.scan hook ticks per query (step budget)",
   "Every (cache file class x fault kind x position) single fault is injected into seeded histories (with further appends and restarts), then random multi-fault scripts on the index files, plus directed threads beyond every tail window (>10^4 frames, >8 MiB sidecar, dense non-message frames, cut points checkpointed repeatedly and out of order); the blame of a faulted plan is verified by a no-fault re-run; each of ~35 queries is compared as-found vs no-cache. Known design gap (stale well-formed sidecars are believed) is listed in known_findings.json by (query, file, fault class, position); everything else must agree.",
   "Reference = the no-cache path of the same code (replay and cut points are additionally checked against an independent raw-log model); termination is only judged for loops that reach the cache.scan hook."),
 "C15": (True, "exploration", "runtime monitoring: metamorphic oracle (frames identical across all chunkings of one body) + reference SSE parser, on the public decoder API (every split position) and end to end against a scripted TCP provider with the sse.chunk hook recording the partitions really delivered",
   "Millions of partitions of generated SSE texts through SseDecoder/EventFrameMapper (every single split for short streams, 2-splits, char-at-a-time, random) and thousands of real session runs receiving the same body under different TCP chunkings incl. splits inside multi-byte characters, CR|LF, field names and invalid UTF-8, and mid-body connection resets at every hostile cut class (numbering contiguous, frames a prefix of the un-faulted run); evidence counts the distinct partitions observed at the hook.",
   "WHATWG-style reference restricted to documented SSE subset; end-to-end part explores the partitions TCP/hyper actually deliver."),
 "C05": (True, "fault_enumeration", "runtime monitoring: crash-point enumeration by imaging (hook handler copies data dir + workspace .rip at every write boundary), each image restarted with the real engine and judged by validated replay, raw-log parser, exactly-once of acknowledged ids, further appends, and a differential of sampled queries vs the no-cache path",
   "Every hit of every crash point (log append enter/locked/body/newline/flush, each sidecar/index/artifact/snapshot/index.json write and rename, sidecar rebuild steps) of every operation kind of seeded sequential workloads (incl. frames larger than the 8 KiB writer buffer, compaction jobs, branch/handoff, a routed session) is imaged and restarted; frame sizes calibrated to the byte around every multiple of the read windows (8-512 KiB +-1) are restarted cleanly and from crash images inside the huge append; ~500-1500 images per quick run.",
   "Process-crash model (completed write(2)s visible, no power loss); a directory copy at a hook equals what a kill leaves; sequential workload."),
 "C09": (True, "exploration", "runtime monitoring: reference-model oracle rebuilt from the raw event log (cut points, plans, job brackets, checkpoint coverage) over seeded histories and parameter sweeps, byte-diff of the log around every call (noop/dry-run add nothing), fork-and-repeat determinism check, concurrent auto/schedule stress with injected delays, several jobs per cut point with a per-summary base/delta-window oracle and pairwise text equality",
   "Thousands of cut-point/status/auto/schedule/manual-checkpoint calls per run across stride/limit/max_new/execute/dry_run/block_on_inflight values incl. 0, 1 and larger than the thread, judged against a raw-log truth model; summary artifacts read back and coverage checked; same request on two forks gives the same summary text; 2-8 concurrent callers with noise.",
   "Truth model follows compaction.md/ADR-0011 as read from the docs; schedules limited to OS scheduling + injected delays."),
 "C10": (True, "exploration", "runtime monitoring: byte-diff of the event log around every branch/handoff call judged against a raw-log lineage model (ADR-0009 cut resolution), over seeded parent histories x selector classes x summary classes, through both the store API and the HTTP routes",
   "Thousands of branch/handoff calls per run: parent never touched, child opens with created+lineage frames, recorded cut equals the model, invalid selectors rejected with nothing appended, handoff summary resolvable, next child append gets seq 2 (also across restart).",
   "Sequential only; model follows ADR-0009 as read."),
 "C18": (True, "fault_enumeration", "runtime monitoring: holder-set invariant monitor on the real recovery loop under driven rendezvous schedules at auth.* hook points and seeded noise, from every leftover state, plus multi-process rounds of the real rip serve/rip CLI binaries (with injected delays and aborts) observed by liveness + endpoint probes",
   "18 leftover states (incl. mixed owners: live lock beside dead/foreign/corrupt meta, dead lock beside live meta, a real rip serve stopped between lock and meta) x 15 directed read-then-rename schedules + noise cases in-process (|holders|<=1, lock.json always carries the holder's record, live authority never displaced, dead-authority store usable again), and 2-12 real processes racing per round with kill -9 of the winner; every live holder also on its own store against rip clients (four commands through the client recovery loop) alone and with rip serve contenders, lock byte-identity and inode tracked while the owner lives. Graceful-shutdown rounds: an incumbent asked to stop (SIGTERM/SIGINT) with requests in flight must keep its lock until it is gone (foreign live pid in lock.json followed by >=3 further frames of the incumbent's own task stream = violation). Planted records carry start times before boot / now / future / nonsense. Confirmed design-level races are listed as known findings keyed by schedule; live-state and unattributed violations always fail.",
   "In-process contenders share one pid; attribution uses hook-trace order; the real binary is built from /repo with the verif feature."),
 "C19": (True, "exploration", "runtime monitoring: black-box canary search on the real binary - a fresh rip serve per configuration next to a scripted provider that proves the secret was sent; every byte of data dir, workspace, HTTP/SSE responses, process output and CLI output is searched for the canary in raw/base64/hex/percent/JSON-escaped forms",
   "~200 configurations per quick run: 15 ways of supplying the secret (every config layer, env indirection, env overrides, header values, per-request overrides, rip run --provider) x 7 run outcomes (success with tools, tool failure, 401/500 echoing the request, reset, refused, invalid follow-up) with request dumping off/on/capped; doctor output checked for presence+source only. Key shapes include 7-8 character keys; in doctor answers head+tail of a long value together count as disclosure.",
   "Only the listed encodings are searched; a way of supplying the secret that does not exist in the unchanged tree is not enumerated (DESIGN.md 8d, C19-r5); tool commands that print the authority's own environment are excluded."),
 "C20": (True, "exploration", "runtime monitoring: invariant assertions after every TuiState::update (catch_unwind, overflow checks on) over generated frame sequences of all 38 frame types with hostile seq/timestamp/text, determinism by double fold and clone-then-suffix, render sweep on TestBackend, and the real rip headless renderers driven by a fake authority",
   "Thousands of frame scripts per run (gaps, repeats, decreasing and extreme seqs, several streams, multi-byte text at every truncation boundary, all capacity settings), millions of lookup probes (returned frame must carry the asked seq), hundreds of thousands of renders incl. every terminal size 1..130 x 1..30, and ~150 real CLI runs compared across chunkings.",
   "Bounds judged are the configured ones (max_frames, max_output_bytes, 8 KiB previews); Miri pass is thorough-tier only and small."),
 "C02": (True, "exploration", "runtime monitoring: byte-prefix monitor on events.jsonl after every call of sequential histories through the real router/store (old bytes must be an exact prefix, suffix whole JSON lines, must-add-nothing classes add zero bytes), with fuzzed parameters, cache faults and restarts; second observer: the real rip serve under strace (thorough tier)",
   "~27 000 judged calls per quick run over every route and store capability incl. fuzzed read-only parameters, malformed ids/bodies, 4xx rejections, dry-run/noop answers, cache deletion followed by rebuilding reads, restarts; asynchronous writers are awaited before the next call is blamed; compaction and cursor-rotate calls are additionally classified from the raw log alone (nothing to plan / no cursor selected => must add nothing, whatever the call answers) and one cache fault is persistent (cache root replaced by a regular file); strace observer asserts O_APPEND-only opens and no rename/unlink/truncate on the log.",
   "Sequential histories; the byte oracle cannot see a same-bytes same-inode rewrite (only the strace observer can)."),
 "C03": (True, "exploration", "runtime monitoring: (A) table-driven round-trip oracle over all 38 frame variants with unique tokens (wire==read(wire), stream assignment, no token lost at write or read, envelope keys), also through EventLog append/replay and snapshots; (B) live collectors vs log vs sidecar vs snapshot vs replay_events frame-for-frame on concurrent histories",
   "Nesting-depth sweep (every depth 88..132 quick, 2..140 thorough, four entry doors) with the full comparison per depth; ~25 000 generated frames per quick run (optional fields absent/present/null, unicode incl. astral and U+2028, 64 KiB strings, deep and extreme JSON values) and ~3 000 streams compared live==log==sidecar==snapshot==thread SSE replay incl. restarts and verify_snapshot.",
   "Floats restricted to exactly representable values; payload nesting limited to what the system can emit (100 levels)."),
 "C06": (True, "fault_enumeration", "runtime monitoring: driven rendezvous schedules at the emit/stream hook points enumerate every placement of a subscriber's subscribe/snapshot steps against every frame emission of sessions, tasks and threads; received SSE bytes judged against the log (0..n exactly once, in order, JSON-equal); plus stress with 1-32 subscribers under noise and a >16 384-frame burst",
   "All join orders x all frames k of several producer variants for the three stream kinds (hundreds of driven joins per quick run, all realised), ~5 000 stress subscribers, lag burst; joins after the thread's sidecar was lost (rebuild stretched by a per-line delay, appender started inside it, rebuilding reader and later subscriber judged); unrealised schedules and undelivered tails are inconclusive, never violations.",
   "In-process router (no socket buffering); tokio mutex FIFO order assumed for positions reached under the history lock."),
 "C07": (True, "exploration", "runtime monitoring: offline lifecycle-grammar oracle over the final event log of routed runs against a scripted provider (every provider fault incl. reset at every byte, HTTP errors, malformed/invalid events, missing [DONE]) and tool outcomes, parallel posts, interleaved compaction jobs, seeded hook delays; background jobs through four entry points under injected failures (artifact store unusable before/between cuts, workspace gone, cache damage, bursts, overlapping jobs) judged per job id",
   "4-6 000 runs per quick run in ~65 behaviour classes: exactly one run_spawned per accepted post, exactly one run_ended after the run's own session_ended, decided < compiled < side-effects/cursor < ended, session stream starts at seq 0 and ends with exactly one session_ended, jobs ended at most once; a run without closing frames is a violation only when provably nothing is in flight.",
   "Judges the log only; stuck-run verdict relies on generous time bounds (otherwise inconclusive)."),
 "C08": (True, "exploration", "runtime monitoring: reference-model oracle (raw-log recomputation of cut point, eligible checkpoints, halving hierarchy, <=16 recent messages with reply texts) against the real compile entry point on enumerated boundary layouts and random histories, plus metamorphic re-compiles under other cache states, after appends beyond the cut, without snapshots, and racing with appenders",
   "~3 000 compiles per quick run over 23 directed layouts (interleaved runs with 1-1400 late run_ended frames, never-ending runs, anchors beyond every scan budget from 256 KiB to > 8 MiB, 15/16/17 messages, checkpoint at/after/beyond the cut, equal to_seq, 1-4 halving levels, dense side effects, real routed runs with output) and random ones; each anchor compiled under 4 cache/snapshot states and compared with the model and with each other.",
   "Model follows context_bundle.md/ADR-0010/ADR-0018 as implemented; known finding: checkpoint frames appended after the cut are still selected."),
 "C11": (True, "exploration", "runtime monitoring: in-flight counter invariant at ws.exec.begin/end hook points (harness-side classification of tools), black-box BEGIN/END marks written by instrumented shell commands, and an offline oracle over side-effects frames (exactly one per mutating tool call, after tool end, before run end, order equals real order), under seeded holds that widen overlap windows",
   "400 scenarios per quick run with 2-8 parallel sessions (envelopes and scripted-provider tool loops) and 0-4 tasks mixing mutating and read-only tools, with early exits racing with the lock (task cancel while queued/running/finished, tool timeouts, session cancel) and command marks crossed with the hook intervals of other actors: mutating in flight never exceeds 1, read-only overlap is actually observed, mark intervals disjoint, side-effects frames ordered like the mutations.",
   "Overlap observed at hook granularity and shell marks; affected_paths judged for write/apply_patch only."),
 "C12": (True, "exploration", "runtime monitoring: whole-tree before/after oracle (fixture::tree_bytes) around Workspace::apply_patch and the apply_patch tool: after==before on error, after==reference applier result and changed_files==named set on success of constructively generated patches; failing op planted at every index",
   "~35-48 000 patch applications per quick run on generated workspaces (LF/CRLF, final newline or not, empty, binary, nested) with 1-6 ops, 21 kinds of failing op at every position, document-level mutations and induced ENOTDIR/EISDIR/ENAMETOOLONG.",
   "Exactness asserted only inside the constructive domain (hunks cut from the real file); no permission faults (runs as root)."),
 "C13": (True, "fault_enumeration", "runtime monitoring: sentinel-tree manifest and canary information-flow monitors around every path-taking operation, each run in a child process per working directory; enumeration of argument position x path grammar x cwd; strace file-syscall monitor in thorough tier",
   "Full product of 26 argument positions (incl. stored-path injection: manifests planted inside the checkpoint store and rewound with every driver) x ~95 path strings (absolute, '..' in every position, separators, '.', empty, long, unicode, NUL) x 5 working directories within the quick budget: nothing outside the root created/modified/deleted/read, escaping paths refused with the whole root (incl. .rip) unchanged.",
   "Path grammar is restricted to strings that cannot resolve to files the harness does not own; symlink escapes out of scope."),
 "C14": (True, "exploration", "runtime monitoring: model-based oracle (per checkpoint: covered path -> bytes or absent) on real trees after every step of seeded edit/checkpoint/rewind histories run in a child process per working directory, through Workspace, ToolRunner and the router; auto-checkpoint coverage and order checked on frames",
   "15-26 000 judged steps per quick run: rewind restores exactly the covered files from any later state (write atomic/in-place/append, patch add/update/move/delete, external rewrite/append/rename-over, delete, mkdir; file sizes 4 KiB-1 MiB around thresholds), no store file ever shares an inode with a workspace file, failed rewinds leave the tree identical, every editing tool run is preceded by an automatic checkpoint covering every path it changed, cwd equal to or different from the root.",
   "ToolRunner-level driver mirrors ripd's private checkpoint hook; the real hook is exercised through the router."),
 "C16": (True, "exploration", "runtime monitoring: oracle over the request bodies recorded by a scripted provider (each call answered exactly once, by call id, in output order, in the next request; bodies pass the repo's own request validation; stateless input is prefix-extending) and over tool effects in the workspace (unique tokens appended at most once; barred tools leave no token)",
   "2-3 000 conversations per quick run: 1-6 turns, calls via added/delta/done in shuffled/interleaved order, missing ids, duplicate call ids, repeated done, no [DONE], 13 tool_choice settings, both history modes, endless tool requests (bounded at 32), invalid requests never sent.",
   "Execution of effect-free tools is judged through frames and answers only."),
 "C17": (True, "exploration", "runtime monitoring: ground-truth oracle with the harness itself as child process (rv emit writes known bytes with chosen write sizes/pauses/exit code): task frame grammar on SSE and log views, stored bytes == truth prefix up to the cap, delta ranges consecutive, page walks reproduce stored output, shell-tool previews/artifacts (id == sha256) judged against the truth",
   "~2 600-3 500 task and shell runs per quick run: sizes around preview limit/8192/8193/artifact cap, ASCII/multi-byte/binary content split across writes, caps and limits incl. 0, cancel at random delays and at hook hits, random (offset,max_bytes) page sequences; descendants that keep the pipes open after the child exited (late writers, silent holders, other-stream writers, own session under cancel), judged again after the last descendant is gone.",
   "PTY mode excluded (not runnable in this sandbox); pipe chunking is influenced, not controlled."),
}
NOT_BUILT_REASON = "monitor not built yet in this round (work in progress; see DESIGN.md section 3 for the design)"

def main():
    props=[json.loads(l)["id"] for l in open("/verif/properties.jsonl")]
    checks=[]; na=[]
    for pid in props:
        ent=T.get(pid)
        if not ent or not ent[0]:
            na.append({"property_id":pid,"reason":NOT_BUILT_REASON}); continue
        _,level,tech,text,note=ent
        checks.append({
          "property_id":pid,
          "quick_cmd":f"./check {pid} --tier quick",
          "thorough_cmd":f"./check {pid} --tier thorough",
          "evidence_file":f"/verif/evidence/{pid}.json",
          "replay_cmd_template":f"./check {pid} --replay {{path}}",
          "engine":"rv",
          "level_claimed":{"category":level,"text":text,"design_ref":f"DESIGN.md §3 {pid}"},
          "level_note":note,
          "technique":tech,
        })
    m={
      "version":1,
      "setup_cmd":"lib/build.sh --with-rip",
      "hooks":{
        "guard":"cargo feature `verif` (rip-kernel/verif, forwarded by rip-log, ripd, rip-cli); off by default",
        "enable":"harness depends on /repo/crates/* by path with features=[\"verif\"]; real binary: cargo build --release -p rip-cli --features verif --manifest-path /repo/Cargo.toml --target-dir /verif/target/repo",
        "baseline_off_cmd":"/verif/lib/baseline_off.sh",
        "source_commits":HOOK_COMMITS,
        "add_only":True,
      },
      "engines":[{"name":"rv","path":"/verif/harness","serves_properties":[c["property_id"] for c in checks],
                  "kind_free_text":"Rust harness linking the real crates with hook points on; seeded workloads, fault/schedule injection, offline oracles over recorded histories"}],
      "checks":checks,
      "not_applicable":na,
      "notes":"Technique family: runtime monitoring and sanitizers only. exit 0 held / 1 VIOLATION / 2 INCONCLUSIVE. VERIF_SEED and VERIF_TIER honoured. Known findings: /verif/known_findings.json.",
    }
    json.dump(m,open("/verif/MANIFEST.json","w"),indent=1)
    try:
        import jsonschema
        jsonschema.validate(m,json.load(open("/root/.vp/MANIFEST.schema.json")))
        print("MANIFEST valid;",len(checks),"checks;",len(na),"not yet claimed")
    except ImportError:
        print("written (jsonschema not available for validation)")
if __name__=="__main__": main()
