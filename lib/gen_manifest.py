#!/usr/bin/env python3
"""Generates /verif/MANIFEST.json from the table below (keeps it valid and in one place)."""
import json, subprocess, sys

HOOK_COMMITS = subprocess.run(["git","-C","/repo","log","--format=%H %s"],capture_output=True,text=True).stdout.splitlines()
HOOK_COMMITS = [l.split()[0] for l in HOOK_COMMITS if " verif:" in " "+l.split(" ",1)[1] or l.split(" ",1)[1].startswith("verif")]

# id: (built, level, technique, text, note)
T = {
 "C01": (True, "exploration", "runtime monitoring: offline checker over the recorded event log (per-stream order, exactly-once of acknowledged ids, sidecar==log) on seeded concurrent stress histories with injected delays at hook points",
   "Held on N observed concurrent histories (2-16 writer threads, sessions and tasks through the real router, restarts) with delay injection inside the seq->append window; a narrowed critical section produces a duplicate seq within one history. Not exhaustive over schedules.",
   "Trusts the harness, serde_json, that hook points only change timing; schedules limited to what OS scheduling + injected delays produce."),
 "C04": (True, "fault_enumeration", "runtime monitoring: differential oracle (answers with caches as found vs caches removed, plus raw-log reference for replay/cut points) over an enumeration of cache-fault scripts x query set; termination decided by counting cache.scan hook ticks per query (step budget)",
   "Every (cache file class x fault kind x position) single fault is injected into seeded histories (with further appends and restarts), then random multi-fault scripts on the index files, plus directed threads beyond every tail window (>10^4 frames, >8 MiB sidecar, dense non-message frames); each of ~35 queries is compared as-found vs no-cache. Known design gap (stale well-formed sidecars are believed) is listed in known_findings.json by (query, file, fault class, position); everything else must agree.",
   "Reference = the no-cache path of the same code (replay and cut points are additionally checked against an independent raw-log model); termination is only judged for loops that reach the cache.scan hook."),
 "C15": (True, "exploration", "runtime monitoring: metamorphic oracle (frames identical across all chunkings of one body) + reference SSE parser, on the public decoder API (every split position) and end to end against a scripted TCP provider with the sse.chunk hook recording the partitions really delivered",
   "Millions of partitions of generated SSE texts through SseDecoder/EventFrameMapper (every single split for short streams, 2-splits, char-at-a-time, random) and thousands of real session runs receiving the same body under different TCP chunkings incl. splits inside multi-byte characters, CR|LF, field names and invalid UTF-8; evidence counts the distinct partitions observed at the hook.",
   "WHATWG-style reference restricted to documented SSE subset; end-to-end part explores the partitions TCP/hyper actually deliver."),
}
NOT_BUILT_REASON = "monitor not built yet in this round (work in progress; see DESIGN.md section 3 for the design)"

def main():
    props=[json.loads(l)["id"] for l in open("/verif/properties.jsonl")]
    checks=[]; na=[]
    for pid in props:
        ent=T.get(pid)
        if not ent or not ent[0]:
            na.append({"property_id":pid,"reason":NOT_BUILT_REASON}); continue
        _,level,tech,text,note=ent
        checks.append({
          "property_id":pid,
          "quick_cmd":f"./check {pid} --tier quick",
          "thorough_cmd":f"./check {pid} --tier thorough",
          "evidence_file":f"/verif/evidence/{pid}.json",
          "replay_cmd_template":f"./check {pid} --replay {{path}}",
          "engine":"rv",
          "level_claimed":{"category":level,"text":text,"design_ref":f"DESIGN.md §3 {pid}"},
          "level_note":note,
          "technique":tech,
        })
    m={
      "version":1,
      "setup_cmd":"lib/build.sh --with-rip",
      "hooks":{
        "guard":"cargo feature `verif` (rip-kernel/verif, forwarded by rip-log, ripd, rip-cli); off by default",
        "enable":"harness depends on /repo/crates/* by path with features=[\"verif\"]; real binary: cargo build --release -p rip-cli --features verif --manifest-path /repo/Cargo.toml --target-dir /verif/target/repo",
        "baseline_off_cmd":"/verif/lib/baseline_off.sh",
        "source_commits":HOOK_COMMITS,
        "add_only":True,
      },
      "engines":[{"name":"rv","path":"/verif/harness","serves_properties":[c["property_id"] for c in checks],
                  "kind_free_text":"Rust harness linking the real crates with hook points on; seeded workloads, fault/schedule injection, offline oracles over recorded histories"}],
      "checks":checks,
      "not_applicable":na,
      "notes":"Technique family: runtime monitoring and sanitizers only. exit 0 held / 1 VIOLATION / 2 INCONCLUSIVE. VERIF_SEED and VERIF_TIER honoured. Known findings: /verif/known_findings.json.",
    }
    json.dump(m,open("/verif/MANIFEST.json","w"),indent=1)
    try:
        import jsonschema
        jsonschema.validate(m,json.load(open("/root/.vp/MANIFEST.schema.json")))
        print("MANIFEST valid;",len(checks),"checks;",len(na),"not yet claimed")
    except ImportError:
        print("written (jsonschema not available for validation)")
if __name__=="__main__": main()
