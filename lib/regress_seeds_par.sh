#!/bin/bash
# usage: regress_seeds_par.sh [parallel=6] [seed=1] [name-filter-regex]
# Re-evaluates every saved seeded change (seeded/*/patch.diff) with lib/eval_seed_par.sh: scratch worktrees of /repo and
# scratch copies of the committed harness, /repo itself untouched. Prints one RESULT line per change and a summary.
P=${1:-6}; SEED=${2:-1}; FILT=${3:-.}
cd /verif
ls seeded | grep -E "$FILT" | xargs -P $P -I{} lib/eval_seed_par.sh {} quick $SEED | tee target/seed_par/regress_all.log | grep "^RESULT"
echo "SUMMARY caught=$(grep -c '^RESULT .* CAUGHT' target/seed_par/regress_all.log) missed=$(grep -c '^RESULT .* MISSED' target/seed_par/regress_all.log) other=$(grep -c '^RESULT .* rc=' target/seed_par/regress_all.log)"
