#!/bin/bash
# Runs every seeded change under /verif/seeded against its property's quick check. Sequential (modifies /repo).
cd /verif
for d in seeded/*/; do
  id=$(basename $d); prop=${id%%-*}
  res=$(lib/eval_seed.sh $prop /verif/${d}patch.diff quick ${1:-1} 2>&1 | grep "^RESULT")
  sig=$(grep -m1 -o "signature=[^ ]*" target/seed_eval_$prop.out | cut -c1-110); rm -f target/seed_eval_$prop.out
  echo "$id $res $sig"
done
lib/build.sh --with-rip
echo REGRESS-DONE
