#!/usr/bin/env python3
"""Maintains /verif/known_findings.json (edited by hand or with this tool; never at check run time).
   usage: kf.py add <property> <signature> <what> [status]   |   kf.py list   |   kf.py rm <signature>"""
import json,sys
P='/verif/known_findings.json'
d=json.load(open(P))
f=d.setdefault('findings',[])
if sys.argv[1]=='add':
    prop,sig,what=sys.argv[2:5]; status=sys.argv[5] if len(sys.argv)>5 else 'known'
    f[:]=[x for x in f if x['signature']!=sig]
    f.append({'property':prop,'signature':sig,'what':what,'status':status})
elif sys.argv[1]=='rm':
    f[:]=[x for x in f if x['signature']!=sys.argv[2]]
elif sys.argv[1]=='list':
    for x in f: print(x['status'],x['property'],x['signature'])
f.sort(key=lambda x:(x['property'],x['signature']))
json.dump(d,open(P,'w'),indent=1)
