#!/bin/bash
# usage: lib/run_all.sh [quick|thorough] [seed]  — runs every check once, prints a summary line per check
TIER=${1:-quick}; SEED=${2:-1}
cd /verif
for id in C01 C02 C03 C04 C05 C06 C07 C08 C09 C10 C11 C12 C13 C14 C15 C16 C17 C18 C19 C20; do
  s=$(date +%s)
  VERIF_SEED=$SEED ./check $id --tier $TIER > /verif/target/run_$id.out 2>&1
  rc=$?
  e=$(date +%s)
  echo "$id rc=$rc wall=$((e-s))s known=$(grep -c '^KNOWN-FINDING' /verif/target/run_$id.out) viol=$(grep -c '^VIOLATION' /verif/target/run_$id.out) $(grep -E '^(OK|INCONCLUSIVE)' /verif/target/run_$id.out | cut -c1-110)"
done
