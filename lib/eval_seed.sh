#!/bin/bash
# usage: eval_seed.sh <property-id> <patch.diff> [tier] [seed]
# Applies a seeded breaking change to /repo, runs the property's check, reverts. Prints CAUGHT / MISSED.
ID=$1; PATCH=$2; TIER=${3:-quick}; SEED=${4:-1}
cd /repo || exit 2
if [ -n "$(git status --porcelain --untracked-files=no)" ]; then echo "repo not clean"; exit 2; fi
git apply "$PATCH" || { echo "patch does not apply"; exit 2; }
cd /verif
VERIF_REPLAY_DIR=/verif/target/seed_replays VERIF_SEED=$SEED ./check $ID --tier $TIER --out /verif/target/seed_eval_$ID.json > /verif/target/seed_eval_$ID.out 2>&1
rc=$?
git -C /repo checkout -- .
grep -E "^VIOLATION|^  what" /verif/target/seed_eval_$ID.out | cut -c1-300 | head -6
if [ $rc -eq 1 ]; then echo "RESULT $ID CAUGHT (tier=$TIER seed=$SEED)"; elif [ $rc -eq 0 ]; then echo "RESULT $ID MISSED (tier=$TIER seed=$SEED)"; else echo "RESULT $ID rc=$rc"; tail -3 /verif/target/seed_eval_$ID.out; fi
# leave the build fresh for the unchanged tree again
lib/build.sh --with-rip >/dev/null 2>&1
