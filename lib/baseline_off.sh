#!/bin/bash
# Runs the repository's stable baseline with the `verif` feature OFF and compares against
# /root/.vp/BASELINE.json (every stable_pass test must pass). Exit 0 = match.
set -u
cd /repo
export CARGO_NET_OFFLINE=true
OUT=${1:-/verif/target/baseline}
mkdir -p "$OUT"
cargo nextest run --workspace --no-fail-fast --tool-config-file pb:/w/lib/nextest.toml --profile pb \
  --test-threads 8 --offline > "$OUT/nextest.log" 2>&1
JUNIT=/repo/target/nextest/pb/junit.xml
python3 - "$JUNIT" <<'PY'
import json,sys,xml.etree.ElementTree as ET
base=json.load(open('/root/.vp/BASELINE.json'))
want=set(base['stable_pass'])
root=ET.parse(sys.argv[1]).getroot()
passed=set(); failed=set()
for ts in root.iter('testsuite'):
    suite=ts.get('name')
    for tc in ts.iter('testcase'):
        name=f"{suite}::{tc.get('name')}"
        bad = any(c.tag in ('failure','error') for c in tc)
        (failed if bad else passed).add(name)
missing=sorted(want-passed)
print(f"baseline: {len(want)} stable; passed now {len(passed)}; failed now {len(failed)}; stable-but-not-passing {len(missing)}")
for m in missing: print("  NOT PASSING:", m)
sys.exit(1 if missing else 0)
PY
