#!/bin/bash
# usage: lib/sweep_frozen.sh <tier> <seed> [ids...]  — runs a frozen copy of rv (target/rv-frozen) so that edits
# and rebuilds of the harness do not disturb a long sweep. Evidence goes to target/sweep/, not evidence/.
TIER=$1; SEED=$2; shift 2
IDS=${@:-C01 C02 C03 C04 C05 C06 C07 C08 C09 C10 C11 C12 C13 C14 C15 C16 C17 C18 C19 C20}
mkdir -p /verif/target/sweep
cd /verif
[ -x /verif/target/rip-frozen ] && export RV_RIP_BIN=/verif/target/rip-frozen
for id in $IDS; do
  s=$(date +%s)
  VERIF_SEED=$SEED /verif/target/rv-frozen $id --tier $TIER --out /verif/target/sweep/$id.$TIER.$SEED.json > /verif/target/sweep/$id.$TIER.$SEED.out 2>&1
  rc=$?
  e=$(date +%s)
  echo "$id tier=$TIER seed=$SEED rc=$rc wall=$((e-s))s known=$(grep -c '^KNOWN-FINDING' /verif/target/sweep/$id.$TIER.$SEED.out) viol=$(grep -c '^VIOLATION' /verif/target/sweep/$id.$TIER.$SEED.out) $(grep -E '^(OK|INCONCLUSIVE)' /verif/target/sweep/$id.$TIER.$SEED.out | cut -c1-120)"
done
