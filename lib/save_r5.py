#!/usr/bin/env python3
# one-off helper: copies verified round-5 seeded changes from /tmp/s5/<id>/out into seeded/<id>-r5/ with a meta.json
import json, os, shutil, sys
T = {
 "C01": ("pipes task aborts its output pumps 500 ms after the shell exits; TaskEmitter::emit takes the seq before it awaits the history lock, so an aborted pump burns a seq",
         "task whose shell exits while a descendant holds the pipes and writes within the grace window, while a reader holds the task's history lock when the grace expires",
         "cargo test --offline -p ripd --lib c01_demo -- --skip pty"),
 "C04": ("provider_cursor_status_v1 treats the 10 000-frame cap of the tail scan as 'answer final' (merged tail_exhausted flag skips the full-replay fallback)",
         "intact sidecar, a cursor followed by > 10 000 small frames (< 8 MiB), fewer than 32 cursor keys in the tail",
         "cargo test --offline -p ripd --lib provider_cursor_status_finds_cursor_older_than_tail_event_cap -- --skip pty"),
 "C05": ("append_best_effort removes the dirty marker after the full sidecar + its indexes, before the messages+runs / checkpoint sidecars get the frame",
         "process dies between the full sidecar and a derived sidecar (cache.mr.after_body … cache.compidx.written); restart; later appends; cached windowed read",
         "cargo test --offline -p ripd --features verif --lib crash_between_full_sidecar_and_derived_sidecars -- --skip pty"),
 "C06": ("TaskEmitter::emit holds the seq mutex only while taking the number and appends to the log before the history lock: allocation order and record order of two producers can differ",
         "two producers of one task stream (stdout + stderr pumps, or cancel/status) emitting together, the holder of seq n slower through the log write than the holder of n+1, a client attaching in between",
         "cargo test --offline -p ripd --features verif --lib concurrent_pumps_keep -- --skip pty"),
 "C07": ("scheduler's skipped_inflight answer reports the in-flight job id, and the merged job-run helper in server.rs runs a job whenever execute is true and a job id is present",
         "a summarizer job spawned but not ended (execute=false call) + two or more execute=true scheduler calls while it is in flight: each re-runs the same job id and appends its own job_ended",
         "cargo test --offline -p ripd --lib compaction_job_is_ended_at_most_once -- --skip pty"),
 "C09": ("AutoSummaryAccumulator::finish gains a top-k fast path (select_nth_unstable_by count only) for vocabularies > 256 words: ties at the 12-keyword cut survive in HashMap order",
         "one summary delta with more than 256 distinct non-stopword tokens and a count tie across the 12th rank",
         "cargo test --offline -p ripd --lib compaction_auto_summary_topics_are_deterministic -- --skip pty"),
 "C11": ("workspace lock guard forgets its permit and returns it with add_permits(1) on Drop; the contended path of acquire() binds the owned permit without forget, so it is released when acquire returns and Drop adds another",
         "two or more mutations queued behind a running one (then the waiters run together; afterwards the lock holds 2 permits for the engine's life)",
         "cargo test --offline -p ripd --lib c11_demo -- --skip pty"),
 "C13": ("create_checkpoint resolves and copies each path in one loop (directories on demand): a later refused path leaves the session's checkpoint directory behind",
         "checkpoint request with >= 2 paths where an existing valid file precedes the refused path, in a session without earlier checkpoints",
         "cargo test --offline -p rip-workspace --test c13_refused_checkpoint_leaves_no_trace"),
 "C17": ("pump_output_stream holds back the 1-3 bytes of an unfinished UTF-8 sequence at the end of a pipe read and never flushes them at EOF",
         "pipes task whose stdout or stderr ends in the middle of a multi-byte character",
         "cargo test --offline -p ripd --lib c17_demo -- --skip pty"),
 "C12": ("revert_paths uses remove_dir instead of remove_dir_all when restoring a file whose path became a directory during the patch",
         "one patch that deletes file p, adds p/<dir>/<file> (two levels below p), then hits a failing op",
         "cargo test --offline -p rip-workspace --test patch_rollback_nested_dir"),
}
T.update(json.load(open("/verif/lib/r5_more.json")) if os.path.exists("/verif/lib/r5_more.json") else {})
for pid in sys.argv[1:]:
    change, needs, cmd = T[pid]
    src = f"/tmp/s5/{pid}/out"; dst = f"/verif/seeded/{pid}-r5"
    os.makedirs(dst, exist_ok=True)
    for f in ("patch.diff", "demo_test.diff", "NOTES.md"):
        shutil.copy(f"{src}/{f}", f"{dst}/{f}")
    mp = f"{dst}/meta.json"
    meta = json.load(open(mp)) if os.path.exists(mp) else {}
    meta.update({"property": pid, "round": 5, "change": change, "needs_to_manifest": needs,
      "demonstration": {"files": ["demo_test.diff"], "command": cmd,
        "confirmed": "lib/verify_seed2.sh in a scratch worktree of /repo: demonstration passes on the unchanged tree and fails with patch.diff applied"},
      "check_run": f"lib/eval_seed_par.sh {pid}-r5 quick 1  (scratch worktree + scratch harness copy; /repo untouched)",
      "base_commit": "6daec20"})
    meta.setdefault("result", "pending"); meta.setdefault("caught_by_signature", "")
    json.dump(meta, open(mp, "w"), indent=1)
    print("saved", dst)
